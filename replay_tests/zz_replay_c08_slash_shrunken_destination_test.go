package tests_test

// Replay of the counterexample class to obligation keeper.(Keeper).slashRedelegations:post:noerr (C08), second
// class: the destination position of a pending redelegation has since been PARTLY undelegated below the amount
// to slash; ValidateDelegatedAmount returns ErrInsufficientShares and the slash callback aborts half way
// (instead of capping the slash at what the position still holds).
// FAILS with REPLAY-CONFIRMED when the real code shows the behaviour.

import (
	"testing"
	"time"

	"cosmossdk.io/math"
	sdk "github.com/cosmos/cosmos-sdk/types"
	teststaking "github.com/cosmos/cosmos-sdk/x/staking/testutil"
	"github.com/stretchr/testify/require"

	test_helpers "github.com/terra-money/alliance/app"
	"github.com/terra-money/alliance/x/alliance/types"
)

func TestReplayC08SlashAfterDestinationShrunk(t *testing.T) {
	app, ctx := createTestContext(t)
	start := time.Now().UTC()
	ctx = ctx.WithBlockTime(start).WithBlockHeight(1)
	app.AllianceKeeper.InitGenesis(ctx, &types.GenesisState{
		Params: types.DefaultParams(),
		Assets: []types.AllianceAsset{
			types.NewAllianceAsset(AllianceDenom, math.LegacyNewDec(2), math.LegacyNewDec(0), math.LegacyNewDec(5), math.LegacyNewDec(0), start),
		},
	})
	addrs := test_helpers.AddTestAddrsIncremental(app, ctx, 4, sdk.NewCoins(sdk.NewCoin(AllianceDenom, math.NewInt(10_000_000))))
	pks := test_helpers.CreateTestPubKeys(2)
	valAddr1, valAddr2 := sdk.ValAddress(addrs[0]), sdk.ValAddress(addrs[1])
	test_helpers.RegisterNewValidator(t, app, ctx, teststaking.NewValidator(t, valAddr1, pks[0]))
	test_helpers.RegisterNewValidator(t, app, ctx, teststaking.NewValidator(t, valAddr2, pks[1]))
	user, other := addrs[2], addrs[3]
	get := func(va sdk.ValAddress) types.AllianceValidator {
		v, err := app.AllianceKeeper.GetAllianceValidator(ctx, va)
		require.NoError(t, err)
		return v
	}
	_, err := app.AllianceKeeper.Delegate(ctx, user, get(valAddr1), sdk.NewCoin(AllianceDenom, math.NewInt(1_000_000)))
	require.NoError(t, err)
	_, err = app.AllianceKeeper.Delegate(ctx, other, get(valAddr1), sdk.NewCoin(AllianceDenom, math.NewInt(1_000_000)))
	require.NoError(t, err)
	_, err = app.AllianceKeeper.Redelegate(ctx, user, get(valAddr1), get(valAddr2), sdk.NewCoin(AllianceDenom, math.NewInt(1_000_000)))
	require.NoError(t, err)
	// leave only 100,000 on the destination; the slash wants floor(0.5 x 1,000,000) = 500,000
	_, err = app.AllianceKeeper.Undelegate(ctx, user, get(valAddr2), sdk.NewCoin(AllianceDenom, math.NewInt(900_000)))
	require.NoError(t, err)
	app.AllianceKeeper.ConsumeAssetRebalanceEvent(ctx)

	ctx = ctx.WithBlockTime(start.Add(time.Hour)).WithBlockHeight(2)
	err = app.AllianceKeeper.StakingHooks().BeforeValidatorSlashed(ctx, valAddr1, math.LegacyMustNewDecFromStr("0.5"))
	cctx, _ := ctx.CacheContext()
	queued := app.AllianceKeeper.ConsumeAssetRebalanceEvent(cctx)
	t.Logf("slash callback returned: %v; rebalance queued: %v", err, queued)
	if err != nil || !queued {
		t.Fatalf("REPLAY-CONFIRMED: the slash callback failed (%v) / did not schedule a rebalance (%v) because the destination position shrank below the slash amount", err, queued)
	}
	t.Logf("REPLAY-NOT-CONFIRMED")
}
