package tests_test

// Replay of the counterexample class to obligation keeper.(Keeper).slashRedelegations:post:noerr (C08):
// slashRedelegations claims rewards on the destination delegation BEFORE checking that it still exists;
// if the delegator has since undelegated everything from the destination, the claim returns
// ErrNoDelegatorForAddress, the slash callback aborts after the bonded slash was written, pending unbondings
// are not slashed and no rebalance is queued. FAILS with REPLAY-CONFIRMED when the real code shows it.

import (
	"testing"
	"time"

	"cosmossdk.io/math"
	sdk "github.com/cosmos/cosmos-sdk/types"
	teststaking "github.com/cosmos/cosmos-sdk/x/staking/testutil"
	"github.com/stretchr/testify/require"

	test_helpers "github.com/terra-money/alliance/app"
	"github.com/terra-money/alliance/x/alliance/types"
)

func TestReplayC08SlashAfterDestinationEmptied(t *testing.T) {
	app, ctx := createTestContext(t)
	start := time.Now().UTC()
	ctx = ctx.WithBlockTime(start).WithBlockHeight(1)
	app.AllianceKeeper.InitGenesis(ctx, &types.GenesisState{
		Params: types.DefaultParams(),
		Assets: []types.AllianceAsset{
			types.NewAllianceAsset(AllianceDenom, math.LegacyNewDec(2), math.LegacyNewDec(0), math.LegacyNewDec(5), math.LegacyNewDec(0), start),
		},
	})
	addrs := test_helpers.AddTestAddrsIncremental(app, ctx, 4, sdk.NewCoins(sdk.NewCoin(AllianceDenom, math.NewInt(10_000_000))))
	pks := test_helpers.CreateTestPubKeys(2)
	valAddr1, valAddr2 := sdk.ValAddress(addrs[0]), sdk.ValAddress(addrs[1])
	test_helpers.RegisterNewValidator(t, app, ctx, teststaking.NewValidator(t, valAddr1, pks[0]))
	test_helpers.RegisterNewValidator(t, app, ctx, teststaking.NewValidator(t, valAddr2, pks[1]))
	user, other := addrs[2], addrs[3]
	get := func(va sdk.ValAddress) types.AllianceValidator {
		v, err := app.AllianceKeeper.GetAllianceValidator(ctx, va)
		require.NoError(t, err)
		return v
	}
	_, err := app.AllianceKeeper.Delegate(ctx, user, get(valAddr1), sdk.NewCoin(AllianceDenom, math.NewInt(1_000_000)))
	require.NoError(t, err)
	_, err = app.AllianceKeeper.Delegate(ctx, other, get(valAddr1), sdk.NewCoin(AllianceDenom, math.NewInt(1_000_000)))
	require.NoError(t, err)
	_, err = app.AllianceKeeper.Undelegate(ctx, other, get(valAddr1), sdk.NewCoin(AllianceDenom, math.NewInt(500_000)))
	require.NoError(t, err)
	// redelegate everything from validator 1 to validator 2, then leave validator 2 entirely
	_, err = app.AllianceKeeper.Redelegate(ctx, user, get(valAddr1), get(valAddr2), sdk.NewCoin(AllianceDenom, math.NewInt(1_000_000)))
	require.NoError(t, err)
	_, err = app.AllianceKeeper.Undelegate(ctx, user, get(valAddr2), sdk.NewCoin(AllianceDenom, math.NewInt(1_000_000)))
	require.NoError(t, err)
	// drain the rebalance flag
	app.AllianceKeeper.ConsumeAssetRebalanceEvent(ctx)

	ctx = ctx.WithBlockTime(start.Add(time.Hour)).WithBlockHeight(2)
	err = app.AllianceKeeper.StakingHooks().BeforeValidatorSlashed(ctx, valAddr1, math.LegacyMustNewDecFromStr("0.5"))
	cctx, _ := ctx.CacheContext()
	queued := app.AllianceKeeper.ConsumeAssetRebalanceEvent(cctx)
	t.Logf("slash callback returned: %v; rebalance queued: %v", err, queued)
	if err != nil || !queued {
		t.Fatalf("REPLAY-CONFIRMED: the slash callback failed (%v) / did not schedule a rebalance (%v) because the destination position of a pending redelegation no longer exists", err, queued)
	}
	t.Logf("REPLAY-NOT-CONFIRMED")
}
