package tests_test

// Replay for the bounded fact bounded:reward-arithmetic:claims_never_exceed_the_deposit (C12):
// AddAssetsToRewardPool computes the index increment amount x weight / validatorTokens with LegacyDec.Quo, which rounds
// half-up at 18 digits; the payout multiplies that index by the position's tokens. With an 18-decimal asset (1e24 base
// units staked) the rounding error of the index (up to 5e-19) is multiplied by 1e24: the single delegator of a validator
// is owed MORE than the pool received for that validator and the claim fails. No slash, no other delegator involved.
// FAILS with REPLAY-CONFIRMED when the real code shows the behaviour.

import (
	"testing"
	"time"

	"cosmossdk.io/math"
	sdk "github.com/cosmos/cosmos-sdk/types"
	teststaking "github.com/cosmos/cosmos-sdk/x/staking/testutil"
	"github.com/stretchr/testify/require"

	test_helpers "github.com/terra-money/alliance/app"
	"github.com/terra-money/alliance/x/alliance/types"
)

func TestReplayC12IndexRoundsUp(t *testing.T) {
	app, ctx := createTestContext(t)
	start := time.Now().UTC()
	ctx = ctx.WithBlockTime(start).WithBlockHeight(1)
	app.AllianceKeeper.InitGenesis(ctx, &types.GenesisState{
		Params: types.DefaultParams(),
		Assets: []types.AllianceAsset{
			types.NewAllianceAsset(AllianceDenom, math.LegacyNewDec(1), math.LegacyNewDec(0), math.LegacyNewDec(100), math.LegacyNewDec(0), start),
		},
	})
	stake, _ := math.NewIntFromString("1000000000000000000000000") // 1e24 base units = 1,000,000 units of an 18-decimal asset
	reward := math.NewInt(999_999_999_999)
	addrs := test_helpers.AddTestAddrsIncremental(app, ctx, 3, sdk.NewCoins(sdk.NewCoin(AllianceDenom, stake), sdk.NewCoin("reward", reward)))
	valAddr := sdk.ValAddress(addrs[0])
	test_helpers.RegisterNewValidator(t, app, ctx, teststaking.NewValidator(t, valAddr, test_helpers.CreateTestPubKeys(1)[0]))
	val, err := app.AllianceKeeper.GetAllianceValidator(ctx, valAddr)
	require.NoError(t, err)
	_, err = app.AllianceKeeper.Delegate(ctx, addrs[2], val, sdk.NewCoin(AllianceDenom, stake))
	require.NoError(t, err)
	ctx = ctx.WithBlockHeight(2).WithBlockTime(start.Add(time.Minute))
	val, _ = app.AllianceKeeper.GetAllianceValidator(ctx, valAddr)
	require.NoError(t, app.AllianceKeeper.AddAssetsToRewardPool(ctx, addrs[1], val, sdk.NewCoins(sdk.NewCoin("reward", reward))))
	val, _ = app.AllianceKeeper.GetAllianceValidator(ctx, valAddr)
	t.Logf("index after depositing %s for %s staked: %v", reward, stake, val.GlobalRewardHistory)
	paid, err := app.AllianceKeeper.ClaimDelegationRewards(ctx, addrs[2], val, AllianceDenom)
	t.Logf("the only delegator claims: paid %s, err %v", paid, err)
	if err != nil || paid.AmountOf("reward").GT(reward) {
		t.Fatalf("REPLAY-CONFIRMED: the only delegator is owed more than the %sreward the pool received: %v", reward, err)
	}
	t.Logf("REPLAY-NOT-CONFIRMED")
}
