package tests_test

// Replay of the counterexample class to obligation
//   keeper.(Keeper).slashRedelegations:pre@keeper.(Keeper).slashRedelegations/ValidateDelegatedAmount#1:no_division_by_zero (C05, C08):
// the destination validator of a pending redelegation holds delegator shares of the asset but its token value rounds
// to 0 (its share of the asset is below 5e-19). Slashing the SOURCE validator converts the slash amount to destination
// shares, which divides by the destination's token value: the slash callback panics (in production: inside the
// staking module's slash, i.e. during block processing).
// FAILS with REPLAY-CONFIRMED when the real code shows the behaviour.

import (
	"testing"
	"time"

	"cosmossdk.io/math"
	sdk "github.com/cosmos/cosmos-sdk/types"
	teststaking "github.com/cosmos/cosmos-sdk/x/staking/testutil"
	"github.com/stretchr/testify/require"

	test_helpers "github.com/terra-money/alliance/app"
	"github.com/terra-money/alliance/x/alliance/types"
)

func TestReplayC08SlashWithZeroValuedRedelegationDestination(t *testing.T) {
	app, ctx := createTestContext(t)
	start := time.Now().UTC()
	ctx = ctx.WithBlockTime(start).WithBlockHeight(1)
	app.AllianceKeeper.InitGenesis(ctx, &types.GenesisState{
		Params: types.DefaultParams(),
		Assets: []types.AllianceAsset{
			types.NewAllianceAsset(AllianceDenom, math.LegacyNewDec(2), math.LegacyNewDec(0), math.LegacyNewDec(5), math.LegacyNewDec(0), start),
		},
	})
	big, _ := math.NewIntFromString("4000000000000000000000") // 4e21 base units
	addrs := test_helpers.AddTestAddrsIncremental(app, ctx, 5, sdk.NewCoins(sdk.NewCoin(AllianceDenom, big.MulRaw(2))))
	pks := test_helpers.CreateTestPubKeys(3)
	valAddr1, valAddr2, valAddr3 := sdk.ValAddress(addrs[0]), sdk.ValAddress(addrs[1]), sdk.ValAddress(addrs[2])
	test_helpers.RegisterNewValidator(t, app, ctx, teststaking.NewValidator(t, valAddr1, pks[0]))
	test_helpers.RegisterNewValidator(t, app, ctx, teststaking.NewValidator(t, valAddr2, pks[1]))
	test_helpers.RegisterNewValidator(t, app, ctx, teststaking.NewValidator(t, valAddr3, pks[2]))
	get := func(va sdk.ValAddress) types.AllianceValidator {
		v, err := app.AllianceKeeper.GetAllianceValidator(ctx, va)
		require.NoError(t, err)
		return v
	}
	// a whale on validator 1; a user with 1,000,000 on validator 3 who redelegates one base unit to the empty validator 2
	_, err := app.AllianceKeeper.Delegate(ctx, addrs[3], get(valAddr1), sdk.NewCoin(AllianceDenom, big))
	require.NoError(t, err)
	_, err = app.AllianceKeeper.Delegate(ctx, addrs[4], get(valAddr3), sdk.NewCoin(AllianceDenom, math.NewInt(1_000_000)))
	require.NoError(t, err)
	_, err = app.AllianceKeeper.Redelegate(ctx, addrs[4], get(valAddr3), get(valAddr2), sdk.NewCoin(AllianceDenom, math.NewInt(1)))
	require.NoError(t, err)
	asset, _ := app.AllianceKeeper.GetAssetByDenom(ctx, AllianceDenom)
	v2 := get(valAddr2)
	t.Logf("destination validator: delegator shares %s, validator shares %s, token value %s", v2.TotalDelegationSharesWithDenom(AllianceDenom), v2.ValidatorSharesWithDenom(AllianceDenom), v2.TotalTokensWithAsset(asset))

	// the source validator is slashed while the redelegation is pending
	var rec interface{}
	var serr error
	func() {
		defer func() { rec = recover() }()
		cctx, _ := ctx.CacheContext()
		serr = app.AllianceKeeper.SlashValidator(cctx, valAddr3, math.LegacyNewDecWithPrec(5, 1))
	}()
	t.Logf("slash of the source validator: panic=%v err=%v", rec, serr)
	if rec != nil {
		t.Fatalf("REPLAY-CONFIRMED: the slash callback panics: %v", rec)
	}
	t.Logf("REPLAY-NOT-CONFIRMED")
}
