package tests_test

// Replay of the counterexample to obligation keeper.(MsgServer).UpdateParams:post:params_valid (C17):
// the handler accepts TakeRateClaimInterval = 0 (ParamsValid requires > 0), and the next end-of-block
// divides by it. Run through `go test -overlay` into x/alliance/keeper/tests (nothing is written to /repo).
// The test FAILS (prints REPLAY-CONFIRMED) when the real code violates the property.

import (
	"testing"
	"time"

	"cosmossdk.io/math"
	sdk "github.com/cosmos/cosmos-sdk/types"
	authtypes "github.com/cosmos/cosmos-sdk/x/auth/types"
	govtypes "github.com/cosmos/cosmos-sdk/x/gov/types"

	"github.com/terra-money/alliance/x/alliance"
	"github.com/terra-money/alliance/x/alliance/keeper"
	"github.com/terra-money/alliance/x/alliance/types"
)

func TestReplayC17UpdateParamsZeroInterval(t *testing.T) {
	app, ctx := createTestContext(t)
	start := time.Now().UTC()
	ctx = ctx.WithBlockTime(start)
	app.AllianceKeeper.InitGenesis(ctx, &types.GenesisState{
		Params: types.Params{RewardDelayTime: time.Hour, TakeRateClaimInterval: 5 * time.Minute, LastTakeRateClaimTime: start},
		Assets: []types.AllianceAsset{
			types.NewAllianceAsset("alliance", math.LegacyNewDec(1), math.LegacyZeroDec(), math.LegacyNewDec(5), math.LegacyMustNewDecFromStr("0.1"), start),
		},
	})
	ms := keeper.MsgServer{Keeper: app.AllianceKeeper}
	authority := authtypes.NewModuleAddress(govtypes.ModuleName).String()
	_, err := ms.UpdateParams(ctx, &types.MsgUpdateParams{
		Authority: authority,
		Params:    types.Params{RewardDelayTime: 0, TakeRateClaimInterval: 0, LastTakeRateClaimTime: start},
	})
	if err != nil {
		t.Logf("REPLAY-NOT-CONFIRMED: UpdateParams rejected the zero interval: %v", err)
		return
	}
	t.Logf("UpdateParams accepted TakeRateClaimInterval=0 (stored: %v)", app.AllianceKeeper.RewardClaimInterval(ctx))
	ctx = ctx.WithBlockTime(start.Add(time.Hour)).WithBlockHeight(ctx.BlockHeight() + 1)
	func() {
		defer func() {
			if r := recover(); r != nil {
				t.Fatalf("REPLAY-CONFIRMED: EndBlocker panicked after an accepted parameter update: %v", r)
			}
		}()
		if err := alliance.EndBlocker(ctx, app.AllianceKeeper); err != nil {
			t.Fatalf("REPLAY-CONFIRMED: EndBlocker failed after an accepted parameter update: %v", err)
		}
	}()
	_ = sdk.Context{}
	t.Logf("REPLAY-NOT-CONFIRMED: EndBlocker completed")
}
