package tests_test

// Candidate (found by reading AddAssetsToRewardPool while considering to bring it under contract; the body is a trusted contract, so no
// obligation covers it): when every alliance a validator carries has reward weight 0, totalStakedRewardWeight is 0 and
// `assetStakedRewardWeights[...].Quo(totalStakedRewardWeight)` divides by zero. That needs rewards to arrive for the module's delegation on
// such a validator: after the weight was set to 0 the rebalance unbonds only the whole tokens of the module's position, so on a validator
// whose staking exchange rate is not 1 (it was slashed) a sub-token remainder of the module's delegation stays and keeps earning.
// FAILS with REPLAY-CONFIRMED when the real code shows the behaviour.

import (
	"fmt"
	"testing"
	"time"

	"cosmossdk.io/math"
	abcitypes "github.com/cometbft/cometbft/abci/types"
	sdk "github.com/cosmos/cosmos-sdk/types"
	authtypes "github.com/cosmos/cosmos-sdk/x/auth/types"
	minttypes "github.com/cosmos/cosmos-sdk/x/mint/types"
	teststaking "github.com/cosmos/cosmos-sdk/x/staking/testutil"
	stakingtypes "github.com/cosmos/cosmos-sdk/x/staking/types"
	"github.com/stretchr/testify/require"

	test_helpers "github.com/terra-money/alliance/app"
	"github.com/terra-money/alliance/x/alliance"
	"github.com/terra-money/alliance/x/alliance/keeper"
	"github.com/terra-money/alliance/x/alliance/types"
)

func TestReplayC05ZeroWeightRewardDepositPanics(t *testing.T) {
	zeroWeightScenario(t, false)
}

// the same state halts end-of-block processing (C17): another alliance, staked on another validator, follows a decay schedule; its weight
// change settles EVERY validator first, among them the one whose only alliance has weight 0
func TestReplayC17ZeroWeightRewardDepositHaltsEndBlock(t *testing.T) {
	zeroWeightScenario(t, true)
}

func zeroWeightScenario(t *testing.T, endBlockPath bool) {
	app, ctx := createTestContext(t)
	bondDenom, err := app.StakingKeeper.BondDenom(ctx)
	require.NoError(t, err)
	start := time.Now()
	ctx = ctx.WithBlockTime(start).WithBlockHeight(1)
	app.AllianceKeeper.InitGenesis(ctx, &types.GenesisState{
		Params: types.DefaultParams(),
		Assets: []types.AllianceAsset{
			types.NewAllianceAsset(AllianceDenom, math.LegacyNewDec(1), math.LegacyNewDec(0), math.LegacyNewDec(5), math.LegacyZeroDec(), start),
			{Denom: AllianceDenomTwo, RewardWeight: math.LegacyNewDec(1), RewardWeightRange: types.RewardWeightRange{Min: math.LegacyNewDecWithPrec(1, 1), Max: math.LegacyNewDec(5)},
				TakeRate: math.LegacyZeroDec(), TotalTokens: math.ZeroInt(), TotalValidatorShares: math.LegacyZeroDec(), RewardStartTime: start,
				RewardChangeRate: math.LegacyNewDecWithPrec(9, 1), RewardChangeInterval: time.Minute, LastRewardChangeTime: start, IsInitialized: true},
		},
	})
	addrs := test_helpers.AddTestAddrsIncremental(app, ctx, 4, sdk.NewCoins(
		sdk.NewCoin(bondDenom, math.NewInt(10_000_000)), sdk.NewCoin(AllianceDenom, math.NewInt(100_000_000)), sdk.NewCoin(AllianceDenomTwo, math.NewInt(100_000_000))))
	pks := test_helpers.CreateTestPubKeys(2)
	newVal := func(i int) sdk.ValAddress {
		va := sdk.ValAddress(addrs[i])
		v := teststaking.NewValidator(t, va, pks[i])
		v.Commission = stakingtypes.Commission{CommissionRates: stakingtypes.CommissionRates{Rate: math.LegacyZeroDec(), MaxRate: math.LegacyZeroDec(), MaxChangeRate: math.LegacyZeroDec()}, UpdateTime: start}
		test_helpers.RegisterNewValidator(t, app, ctx, v)
		stored, err := app.StakingKeeper.GetValidator(ctx, va)
		require.NoError(t, err)
		_, err = app.StakingKeeper.Delegate(ctx, addrs[i], math.NewInt(1_000_003), stakingtypes.Unbonded, stored, true)
		require.NoError(t, err)
		return va
	}
	val1, val2 := newVal(0), newVal(1)
	_ = val2
	user := addrs[2]
	moduleAddr := app.AccountKeeper.GetModuleAddress(types.ModuleName)
	endBlock := func(c sdk.Context) {
		require.NoError(t, alliance.EndBlocker(c, app.AllianceKeeper))
		_, err := app.StakingKeeper.ApplyAndReturnValidatorSetUpdates(c)
		require.NoError(t, err)
	}
	getVal := func(c sdk.Context, va sdk.ValAddress) types.AllianceValidator {
		v, err := app.AllianceKeeper.GetAllianceValidator(c, va)
		require.NoError(t, err)
		return v
	}
	// block 1: the user stakes on val1; the module bonds its share at the end of the block
	_, err = app.AllianceKeeper.Delegate(ctx, user, getVal(ctx, val1), sdk.NewCoin(AllianceDenom, math.NewInt(10_000_000)))
	require.NoError(t, err)
	_, err = app.AllianceKeeper.Delegate(ctx, addrs[3], getVal(ctx, val2), sdk.NewCoin(AllianceDenomTwo, math.NewInt(10_000_000)))
	require.NoError(t, err)
	endBlock(ctx)
	_, err = app.StakingKeeper.GetDelegation(ctx, moduleAddr, val1)
	require.NoError(t, err, "module must have stake on val1")

	// block 2: val1 is slashed by x/staking (exchange rate of its shares is no longer 1)
	ctx = ctx.WithBlockHeight(2).WithBlockTime(start.Add(6 * time.Second))
	v1 := getVal(ctx, val1)
	cons1, err := v1.GetConsAddr()
	require.NoError(t, err)
	power := v1.GetConsensusPower(app.StakingKeeper.PowerReduction(ctx))
	_, err = app.StakingKeeper.Slash(ctx, cons1, 1, power, math.LegacyNewDecWithPrec(731, 4))
	require.NoError(t, err)
	endBlock(ctx)

	{
		d0, _ := app.StakingKeeper.GetDelegation(ctx, moduleAddr, val1)
		sv0, _ := app.StakingKeeper.GetValidator(ctx, val1)
		t.Logf("after the slash the module holds %s shares on val1 worth %s (validator tokens %s, shares %s)", d0.Shares, sv0.TokensFromShares(d0.Shares), sv0.Tokens, sv0.DelegatorShares)
	}
	// block 3: governance sets the alliance's reward weight to 0; the rebalance at the end of the block unbonds the module's whole tokens
	ctx = ctx.WithBlockHeight(3).WithBlockTime(start.Add(12 * time.Second))
	ms := keeper.NewMsgServerImpl(app.AllianceKeeper)
	_, err = ms.UpdateAlliance(ctx, &types.MsgUpdateAlliance{
		Authority: app.AllianceKeeper.GetAuthority(), Denom: AllianceDenom, RewardWeight: math.LegacyZeroDec(),
		RewardWeightRange: types.RewardWeightRange{Min: math.LegacyZeroDec(), Max: math.LegacyNewDec(5)},
		TakeRate:          math.LegacyZeroDec(), RewardChangeRate: math.LegacyOneDec(), RewardChangeInterval: 0,
	})
	require.NoError(t, err)
	endBlock(ctx)
	del, err := app.StakingKeeper.GetDelegation(ctx, moduleAddr, val1)
	if err != nil {
		t.Logf("REPLAY-NOT-CONFIRMED: the module's delegation on val1 was removed entirely (%v)", err)
		return
	}
	sv, _ := app.StakingKeeper.GetValidator(ctx, val1)
	t.Logf("module keeps %s shares on val1 worth %s tokens", del.Shares, sv.TokensFromShares(del.Shares))

	// block 4: fees are distributed; the module's remainder earns
	ctx = ctx.WithBlockHeight(4).WithBlockTime(start.Add(18 * time.Second))
	fees := sdk.NewCoins(sdk.NewCoin(bondDenom, math.NewInt(1_000_000_000_000)))
	require.NoError(t, app.BankKeeper.MintCoins(ctx, minttypes.ModuleName, fees))
	require.NoError(t, app.BankKeeper.SendCoinsFromModuleToModule(ctx, minttypes.ModuleName, authtypes.FeeCollectorName, fees))
	v1 = getVal(ctx, val1)
	v2 := getVal(ctx, val2)
	c1, _ := v1.GetConsAddr()
	c2, _ := v2.GetConsAddr()
	require.NoError(t, app.DistrKeeper.AllocateTokens(ctx, 2, []abcitypes.VoteInfo{
		{Validator: abcitypes.Validator{Address: c1, Power: 1}}, {Validator: abcitypes.Validator{Address: c2, Power: 1}}}))

	var panicked interface{}
	if endBlockPath {
		// the decay interval of the second alliance has passed: the end blocker changes its weight, settling every validator first
		ectx := ctx.WithBlockHeight(5).WithBlockTime(start.Add(3 * time.Minute))
		func() {
			defer func() { panicked = recover() }()
			err = alliance.EndBlocker(ectx, app.AllianceKeeper)
		}()
		if panicked != nil {
			t.Fatalf("REPLAY-CONFIRMED: the end blocker panics (the chain halts) while settling a validator whose only alliance has reward weight 0: %v", fmt.Sprint(panicked))
		}
		t.Logf("REPLAY-NOT-CONFIRMED: end blocker returned %v", err)
		return
	}
	// the user claims their (zero-weight) alliance rewards on val1
	func() {
		defer func() { panicked = recover() }()
		cctx, _ := ctx.CacheContext()
		_, err = app.AllianceKeeper.ClaimDelegationRewards(cctx, user, getVal(cctx, val1), AllianceDenom)
	}()
	if panicked != nil {
		t.Fatalf("REPLAY-CONFIRMED: claiming rewards on a validator whose only alliance has reward weight 0 panics: %v", fmt.Sprint(panicked))
	}
	t.Logf("claim returned err=%v", err)
	// and the user leaves
	func() {
		defer func() { panicked = recover() }()
		cctx, _ := ctx.CacheContext()
		_, err = app.AllianceKeeper.Undelegate(cctx, user, getVal(cctx, val1), sdk.NewCoin(AllianceDenom, math.NewInt(1_000_000)))
	}()
	if panicked != nil {
		t.Fatalf("REPLAY-CONFIRMED: undelegating from a validator whose only alliance has reward weight 0 panics: %v", fmt.Sprint(panicked))
	}
	t.Logf("REPLAY-NOT-CONFIRMED (undelegate err=%v)", err)
}
