package tests_test

// Replay for the bounded fact bounded:reward-arithmetic:rewards_split_between_assets_by_weight@18dec (C13):
// the reward index is "reward per staked base unit" with 18 decimals. With an 18-decimal asset (1e24 base units staked on the validator)
// a deposit of fewer than 5e5 base units of reward moves the index by less than half a unit in the 18th digit: it rounds to 0 and
// the reward is never claimable by anyone (it stays in the pool); slightly larger deposits are rounded UP (the C12 finding).
// FAILS with REPLAY-CONFIRMED when the real code shows the behaviour.

import (
	"testing"
	"time"

	"cosmossdk.io/math"
	sdk "github.com/cosmos/cosmos-sdk/types"
	teststaking "github.com/cosmos/cosmos-sdk/x/staking/testutil"
	"github.com/stretchr/testify/require"

	test_helpers "github.com/terra-money/alliance/app"
	"github.com/terra-money/alliance/x/alliance/types"
)

func TestReplayC13RewardLostToIndexPrecision(t *testing.T) {
	app, ctx := createTestContext(t)
	start := time.Now().UTC()
	ctx = ctx.WithBlockTime(start).WithBlockHeight(1)
	app.AllianceKeeper.InitGenesis(ctx, &types.GenesisState{
		Params: types.DefaultParams(),
		Assets: []types.AllianceAsset{
			types.NewAllianceAsset(AllianceDenom, math.LegacyNewDec(1), math.LegacyNewDec(0), math.LegacyNewDec(100), math.LegacyNewDec(0), start),
		},
	})
	stake, _ := math.NewIntFromString("1000000000000000000000000")
	reward := math.NewInt(400_000)
	addrs := test_helpers.AddTestAddrsIncremental(app, ctx, 3, sdk.NewCoins(sdk.NewCoin(AllianceDenom, stake), sdk.NewCoin("reward", reward)))
	valAddr := sdk.ValAddress(addrs[0])
	test_helpers.RegisterNewValidator(t, app, ctx, teststaking.NewValidator(t, valAddr, test_helpers.CreateTestPubKeys(1)[0]))
	val, err := app.AllianceKeeper.GetAllianceValidator(ctx, valAddr)
	require.NoError(t, err)
	_, err = app.AllianceKeeper.Delegate(ctx, addrs[2], val, sdk.NewCoin(AllianceDenom, stake))
	require.NoError(t, err)
	ctx = ctx.WithBlockHeight(2).WithBlockTime(start.Add(time.Minute))
	val, _ = app.AllianceKeeper.GetAllianceValidator(ctx, valAddr)
	require.NoError(t, app.AllianceKeeper.AddAssetsToRewardPool(ctx, addrs[1], val, sdk.NewCoins(sdk.NewCoin("reward", reward))))
	val, _ = app.AllianceKeeper.GetAllianceValidator(ctx, valAddr)
	paid, err := app.AllianceKeeper.ClaimDelegationRewards(ctx, addrs[2], val, AllianceDenom)
	require.NoError(t, err)
	t.Logf("the only delegator (the only asset) claims after %s was deposited: paid %q; index %v", reward, paid.String(), val.GlobalRewardHistory)
	if paid.AmountOf("reward").IsZero() {
		t.Fatalf("REPLAY-CONFIRMED: %s of reward was deposited for the validator's only delegator and nothing is claimable (index increment rounded to zero)", reward)
	}
	t.Logf("REPLAY-NOT-CONFIRMED")
}
