package tests_test

// Replay of the counterexample class to obligation
//   keeper.(Keeper).Delegate:pre@keeper.(Keeper).Delegate/upsertDelegationWithNewTokens#1:no_division_by_zero (C05):
// a validator that holds delegator shares of an asset but whose token value Mul(Quo(validatorShares, totalShares), totalTokens)
// rounds to 0 (its share of the asset is below 5e-19) cannot be delegated to: ConvertNewTokenToShares divides by the
// validator's token value and panics. No slash is involved.
// FAILS with REPLAY-CONFIRMED when the real code shows the behaviour.

import (
	"testing"
	"time"

	"cosmossdk.io/math"
	sdk "github.com/cosmos/cosmos-sdk/types"
	teststaking "github.com/cosmos/cosmos-sdk/x/staking/testutil"
	"github.com/stretchr/testify/require"

	test_helpers "github.com/terra-money/alliance/app"
	"github.com/terra-money/alliance/x/alliance/types"
)

func TestReplayC05DelegateToZeroValuedValidator(t *testing.T) {
	app, ctx := createTestContext(t)
	start := time.Now().UTC()
	ctx = ctx.WithBlockTime(start).WithBlockHeight(1)
	app.AllianceKeeper.InitGenesis(ctx, &types.GenesisState{
		Params: types.DefaultParams(),
		Assets: []types.AllianceAsset{
			types.NewAllianceAsset(AllianceDenom, math.LegacyNewDec(2), math.LegacyNewDec(0), math.LegacyNewDec(5), math.LegacyNewDec(0), start),
		},
	})
	big, _ := math.NewIntFromString("4000000000000000000000") // 4e21 base units (4000 units of an 18-decimal asset)
	addrs := test_helpers.AddTestAddrsIncremental(app, ctx, 4, sdk.NewCoins(sdk.NewCoin(AllianceDenom, big.MulRaw(2))))
	pks := test_helpers.CreateTestPubKeys(2)
	valAddr1, valAddr2 := sdk.ValAddress(addrs[0]), sdk.ValAddress(addrs[1])
	test_helpers.RegisterNewValidator(t, app, ctx, teststaking.NewValidator(t, valAddr1, pks[0]))
	test_helpers.RegisterNewValidator(t, app, ctx, teststaking.NewValidator(t, valAddr2, pks[1]))
	get := func(va sdk.ValAddress) types.AllianceValidator {
		v, err := app.AllianceKeeper.GetAllianceValidator(ctx, va)
		require.NoError(t, err)
		return v
	}
	// a whale on validator 1, one base unit on validator 2
	_, err := app.AllianceKeeper.Delegate(ctx, addrs[2], get(valAddr1), sdk.NewCoin(AllianceDenom, big))
	require.NoError(t, err)
	_, err = app.AllianceKeeper.Delegate(ctx, addrs[3], get(valAddr2), sdk.NewCoin(AllianceDenom, math.NewInt(1)))
	require.NoError(t, err)
	asset, _ := app.AllianceKeeper.GetAssetByDenom(ctx, AllianceDenom)
	v2 := get(valAddr2)
	t.Logf("validator 2: delegator shares %s, validator shares %s, token value %s", v2.TotalDelegationSharesWithDenom(AllianceDenom), v2.ValidatorSharesWithDenom(AllianceDenom), v2.TotalTokensWithAsset(asset))
	var rec interface{}
	var derr error
	func() {
		defer func() { rec = recover() }()
		cctx, _ := ctx.CacheContext()
		_, derr = app.AllianceKeeper.Delegate(cctx, addrs[3], get(valAddr2), sdk.NewCoin(AllianceDenom, math.NewInt(1_000_000)))
	}()
	var rec2 interface{}
	var uerr error
	func() {
		defer func() { rec2 = recover() }()
		cctx, _ := ctx.CacheContext()
		_, uerr = app.AllianceKeeper.Undelegate(cctx, addrs[3], get(valAddr2), sdk.NewCoin(AllianceDenom, math.NewInt(1)))
	}()
	t.Logf("delegate: panic=%v err=%v; undelegate of the existing position: panic=%v err=%v", rec, derr, rec2, uerr)
	if rec != nil || derr != nil || rec2 != nil {
		t.Fatalf("REPLAY-CONFIRMED: a holder of the whitelisted asset cannot delegate to an existing validator (panic=%v err=%v) and the existing delegator cannot exit (panic=%v err=%v)", rec, derr, rec2, uerr)
	}
	t.Logf("REPLAY-NOT-CONFIRMED")
}
