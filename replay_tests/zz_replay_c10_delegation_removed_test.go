package tests_test

// Replay of the counterexample to obligation keeper.(Hooks).BeforeDelegationRemoved:post:rebalance_queued (C10):
// when a native delegator removes a whole delegation x/staking fires only BeforeDelegationSharesModified and
// BeforeDelegationRemoved; neither queues a rebalance, so native bonded stake changes and alliance voting
// power is not brought back to target at the end of that block.
// FAILS with REPLAY-CONFIRMED when the real code shows the behaviour.

import (
	"testing"

	"cosmossdk.io/math"
	sdk "github.com/cosmos/cosmos-sdk/types"
	stakingtypes "github.com/cosmos/cosmos-sdk/x/staking/types"
	"github.com/stretchr/testify/require"

	test_helpers "github.com/terra-money/alliance/app"
	"github.com/terra-money/alliance/x/alliance/types"
)

func TestReplayC10FullNativeUndelegationQueuesNoRebalance(t *testing.T) {
	app, ctx := createTestContext(t)
	ctx = ctx.WithBlockHeight(1)
	app.AllianceKeeper.InitGenesis(ctx, &types.GenesisState{
		Params: types.DefaultParams(),
		Assets: []types.AllianceAsset{
			types.NewAllianceAsset(AllianceDenom, math.LegacyNewDec(2), math.LegacyNewDec(0), math.LegacyNewDec(5), math.LegacyNewDec(0), ctx.BlockTime()),
		},
	})
	bondDenom, err := app.StakingKeeper.BondDenom(ctx)
	require.NoError(t, err)
	delegations, err := app.StakingKeeper.GetAllDelegations(ctx)
	require.NoError(t, err)
	valAddr, err := sdk.ValAddressFromBech32(delegations[0].ValidatorAddress)
	require.NoError(t, err)
	val, err := app.AllianceKeeper.GetAllianceValidator(ctx, valAddr)
	require.NoError(t, err)
	addrs := test_helpers.AddTestAddrsIncremental(app, ctx, 2, sdk.NewCoins(
		sdk.NewCoin(AllianceDenom, math.NewInt(10_000_000)), sdk.NewCoin(bondDenom, math.NewInt(10_000_000))))
	_, err = app.AllianceKeeper.Delegate(ctx, addrs[0], val, sdk.NewCoin(AllianceDenom, math.NewInt(1_000_000)))
	require.NoError(t, err)

	// a native delegator bonds 5,000,000 and the block ends: alliance stake is rebalanced to 2 x native
	stakingVal, err := app.StakingKeeper.GetValidator(ctx, valAddr)
	require.NoError(t, err)
	_, err = app.StakingKeeper.Delegate(ctx, addrs[1], math.NewInt(5_000_000), stakingtypes.Unbonded, stakingVal, true)
	require.NoError(t, err)
	// the module's own Delegate re-queues through AfterDelegationModified: run end-of-block steps until quiescent
	for i := 0; i < 3; i++ {
		require.NoError(t, app.AllianceKeeper.RebalanceHook(ctx, app.AllianceKeeper.GetAllAssets(ctx)))
	}
	moduleAddr := app.AccountKeeper.GetModuleAddress(types.ModuleName)
	before, err := app.AllianceKeeper.GetAllianceBondedAmount(ctx, moduleAddr)
	require.NoError(t, err)
	cctx, _ := ctx.CacheContext()
	require.False(t, app.AllianceKeeper.ConsumeAssetRebalanceEvent(cctx), "flag must be consumed by the rebalance")

	// next block: the native delegator removes the WHOLE delegation
	ctx = ctx.WithBlockHeight(2)
	del, err := app.StakingKeeper.GetDelegation(ctx, addrs[1], valAddr)
	require.NoError(t, err)
	_, _, err = app.StakingKeeper.Undelegate(ctx, addrs[1], valAddr, del.Shares)
	require.NoError(t, err)
	cctx, _ = ctx.CacheContext()
	queued := app.AllianceKeeper.ConsumeAssetRebalanceEvent(cctx)
	require.NoError(t, app.AllianceKeeper.RebalanceHook(ctx, app.AllianceKeeper.GetAllAssets(ctx)))
	after, err := app.AllianceKeeper.GetAllianceBondedAmount(ctx, moduleAddr)
	require.NoError(t, err)
	total, _ := app.StakingKeeper.TotalBondedTokens(ctx)
	native := total.Sub(after)
	t.Logf("rebalance queued after full native undelegation: %v; alliance stake before %s, after end of block %s; native now %s (target %s)", queued, before, after, native, native.MulRaw(2))
	if !queued && !after.Equal(native.MulRaw(2)) {
		t.Fatalf("REPLAY-CONFIRMED: native stake changed by a full undelegation, no rebalance was queued and alliance stake %s is not at target %s", after, native.MulRaw(2))
	}
	t.Logf("REPLAY-NOT-CONFIRMED")
}
