package tests_test

// Replay for obligation keeper.(Keeper).SlashValidator:post:accrued_entitlements_of_other_validators_not_inflated (C12):
// the reward index of a validator is "reward per staked token at deposit time", but a payout multiplies the index
// difference by the position's CURRENT token value. Slashing validator A reduces the asset's share total while the
// staked total stays, so every position on every OTHER validator B becomes worth g > 1 times more - including for the
// rewards B's delegators had already accrued. Their claims then add up to more than B's pool ever received.
// FAILS with REPLAY-CONFIRMED when the real code shows the behaviour.

import (
	"testing"
	"time"

	"cosmossdk.io/math"
	sdk "github.com/cosmos/cosmos-sdk/types"
	teststaking "github.com/cosmos/cosmos-sdk/x/staking/testutil"
	"github.com/stretchr/testify/require"

	test_helpers "github.com/terra-money/alliance/app"
	"github.com/terra-money/alliance/x/alliance/types"
)

func TestReplayC12SlashElsewhereInflatesAccruedRewards(t *testing.T) {
	app, ctx := createTestContext(t)
	start := time.Now()
	ctx = ctx.WithBlockTime(start).WithBlockHeight(1)
	app.AllianceKeeper.InitGenesis(ctx, &types.GenesisState{
		Params: types.DefaultParams(),
		Assets: []types.AllianceAsset{
			types.NewAllianceAsset(AllianceDenom, math.LegacyNewDec(2), math.LegacyNewDec(0), math.LegacyNewDec(5), math.LegacyNewDec(0), start),
		},
	})
	addrs := test_helpers.AddTestAddrsIncremental(app, ctx, 6, sdk.NewCoins(
		sdk.NewCoin(AllianceDenom, math.NewInt(20_000_000)), sdk.NewCoin("reward", math.NewInt(20_000_000))))
	pks := test_helpers.CreateTestPubKeys(2)
	valAddrA, valAddrB := sdk.ValAddress(addrs[0]), sdk.ValAddress(addrs[1])
	test_helpers.RegisterNewValidator(t, app, ctx, teststaking.NewValidator(t, valAddrA, pks[0]))
	test_helpers.RegisterNewValidator(t, app, ctx, teststaking.NewValidator(t, valAddrB, pks[1]))
	valA, err := app.AllianceKeeper.GetAllianceValidator(ctx, valAddrA)
	require.NoError(t, err)
	valB, err := app.AllianceKeeper.GetAllianceValidator(ctx, valAddrB)
	require.NoError(t, err)

	// one delegator on A, two on B
	_, err = app.AllianceKeeper.Delegate(ctx, addrs[2], valA, sdk.NewCoin(AllianceDenom, math.NewInt(10_000_000)))
	require.NoError(t, err)
	_, err = app.AllianceKeeper.Delegate(ctx, addrs[3], valB, sdk.NewCoin(AllianceDenom, math.NewInt(5_000_000)))
	require.NoError(t, err)
	valB, _ = app.AllianceKeeper.GetAllianceValidator(ctx, valAddrB)
	_, err = app.AllianceKeeper.Delegate(ctx, addrs[4], valB, sdk.NewCoin(AllianceDenom, math.NewInt(5_000_000)))
	require.NoError(t, err)

	// B's reward pool receives 1,000,000 reward: this is ALL the rewards pool ever receives
	ctx = ctx.WithBlockHeight(2).WithBlockTime(start.Add(time.Minute))
	valB, _ = app.AllianceKeeper.GetAllianceValidator(ctx, valAddrB)
	require.NoError(t, app.AllianceKeeper.AddAssetsToRewardPool(ctx, addrs[5], valB, sdk.NewCoins(sdk.NewCoin("reward", math.NewInt(1_000_000)))))
	pool := app.AccountKeeper.GetModuleAddress(types.RewardsPoolName)
	received := app.BankKeeper.GetBalance(ctx, pool, "reward").Amount

	// validator A is slashed by 50%
	require.NoError(t, app.AllianceKeeper.SlashValidator(ctx, valAddrA, math.LegacyNewDecWithPrec(5, 1)))

	// B's delegators now claim what they had accrued before the slash
	valB, _ = app.AllianceKeeper.GetAllianceValidator(ctx, valAddrB)
	c1, err1 := app.AllianceKeeper.ClaimDelegationRewards(ctx, addrs[3], valB, AllianceDenom)
	valB, _ = app.AllianceKeeper.GetAllianceValidator(ctx, valAddrB)
	c2, err2 := app.AllianceKeeper.ClaimDelegationRewards(ctx, addrs[4], valB, AllianceDenom)
	t.Logf("pool received %s reward; first claim %s (err %v), second claim %s (err %v)", received, c1, err1, c2, err2)
	if err1 != nil || err2 != nil {
		t.Fatalf("REPLAY-CONFIRMED: claims on validator B add up to more than its pool received (%s): first paid %s, second failed: %v %v", received, c1, err1, err2)
	}
	if c1.AmountOf("reward").Add(c2.AmountOf("reward")).GT(received) {
		t.Fatalf("REPLAY-CONFIRMED: paid %s > received %s", c1.AmountOf("reward").Add(c2.AmountOf("reward")), received)
	}
	t.Logf("REPLAY-NOT-CONFIRMED")
}
