package tests_test

// Replay for obligation keeper.(Keeper).slashRedelegations:post:accrued_entitlements_of_other_destination_positions_not_inflated (C12):
// slashing the source of a pending redelegation removes shares from the redelegated position on the DESTINATION validator and from
// that validator's delegator-share total, while the validator's own shares stay: every other position on the destination becomes
// worth more, and because payouts multiply the index difference by the CURRENT token value, what those positions had already
// accrued grows with it. The whale on a third validator keeps the asset-wide effect of the slash negligible.
// FAILS with REPLAY-CONFIRMED when the real code shows the behaviour.

import (
	"testing"
	"time"

	"cosmossdk.io/math"
	sdk "github.com/cosmos/cosmos-sdk/types"
	teststaking "github.com/cosmos/cosmos-sdk/x/staking/testutil"
	"github.com/stretchr/testify/require"

	test_helpers "github.com/terra-money/alliance/app"
	"github.com/terra-money/alliance/x/alliance/types"
)

func TestReplayC12RedelegationSlashInflatesDestinationPositions(t *testing.T) {
	app, ctx := createTestContext(t)
	start := time.Now()
	ctx = ctx.WithBlockTime(start).WithBlockHeight(1)
	app.AllianceKeeper.InitGenesis(ctx, &types.GenesisState{
		Params: types.DefaultParams(),
		Assets: []types.AllianceAsset{
			types.NewAllianceAsset(AllianceDenom, math.LegacyNewDec(2), math.LegacyNewDec(0), math.LegacyNewDec(5), math.LegacyNewDec(0), start),
		},
	})
	addrs := test_helpers.AddTestAddrsIncremental(app, ctx, 7, sdk.NewCoins(
		sdk.NewCoin(AllianceDenom, math.NewInt(2_000_000_000_000)), sdk.NewCoin("reward", math.NewInt(20_000_000))))
	pks := test_helpers.CreateTestPubKeys(3)
	valAddrA, valAddrB, valAddrC := sdk.ValAddress(addrs[0]), sdk.ValAddress(addrs[1]), sdk.ValAddress(addrs[2])
	test_helpers.RegisterNewValidator(t, app, ctx, teststaking.NewValidator(t, valAddrA, pks[0]))
	test_helpers.RegisterNewValidator(t, app, ctx, teststaking.NewValidator(t, valAddrB, pks[1]))
	test_helpers.RegisterNewValidator(t, app, ctx, teststaking.NewValidator(t, valAddrC, pks[2]))
	get := func(va sdk.ValAddress) types.AllianceValidator {
		v, err := app.AllianceKeeper.GetAllianceValidator(ctx, va)
		require.NoError(t, err)
		return v
	}
	user, other, whale, funder := addrs[3], addrs[4], addrs[5], addrs[6]
	_, err := app.AllianceKeeper.Delegate(ctx, whale, get(valAddrC), sdk.NewCoin(AllianceDenom, math.NewInt(1_000_000_000_000)))
	require.NoError(t, err)
	_, err = app.AllianceKeeper.Delegate(ctx, user, get(valAddrA), sdk.NewCoin(AllianceDenom, math.NewInt(10_000_000)))
	require.NoError(t, err)
	_, err = app.AllianceKeeper.Delegate(ctx, other, get(valAddrB), sdk.NewCoin(AllianceDenom, math.NewInt(1_000_000)))
	require.NoError(t, err)
	// user moves 9,000,000 from A to B: B now carries 10,000,000, one tenth of it belongs to `other`
	_, err = app.AllianceKeeper.Redelegate(ctx, user, get(valAddrA), get(valAddrB), sdk.NewCoin(AllianceDenom, math.NewInt(9_000_000)))
	require.NoError(t, err)

	// B's pool receives 1,000,000 reward: `other` has accrued one tenth of it
	ctx = ctx.WithBlockHeight(2).WithBlockTime(start.Add(time.Minute))
	require.NoError(t, app.AllianceKeeper.AddAssetsToRewardPool(ctx, funder, get(valAddrB), sdk.NewCoins(sdk.NewCoin("reward", math.NewInt(1_000_000)))))
	cctx, _ := ctx.CacheContext()
	before, err := app.AllianceKeeper.ClaimDelegationRewards(cctx, other, get(valAddrB), AllianceDenom)
	require.NoError(t, err)

	// the source validator A is slashed by 100% while the redelegation is pending
	require.NoError(t, app.AllianceKeeper.SlashValidator(ctx, valAddrA, math.LegacyOneDec()))
	after, err := app.AllianceKeeper.ClaimDelegationRewards(ctx, other, get(valAddrB), AllianceDenom)
	if err != nil {
		t.Fatalf("REPLAY-CONFIRMED: `other` had accrued %s before the slash of A; after it the claim for the same accrual exceeds what is left of B's deposit: %v", before, err)
	}
	t.Logf("`other` had accrued %s before the slash of A; after it the same accrual pays %s", before, after)
	if after.AmountOf("reward").GT(before.AmountOf("reward").MulRaw(2)) {
		t.Fatalf("REPLAY-CONFIRMED: rewards accrued before the slash more than doubled: %s -> %s (the pool received 1000000 for all of B)", before, after)
	}
	t.Logf("REPLAY-NOT-CONFIRMED")
}
