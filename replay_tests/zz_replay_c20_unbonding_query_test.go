package tests_test

// Replay of the counterexample class to obligation keeper.(Keeper).GetUnbondings:inv-pres@keeper.(Keeper).GetUnbondings#2:filtered (C20):
// the unbonding queries walk the per-validator index and then return EVERY entry of the (completion time,
// delegator) bucket each index key points to: entries of other validators / denoms are returned, and
// GetUnbondingsByDenomAndDelegator returns entries once per matching index key.
// FAILS with REPLAY-CONFIRMED when the real code shows the behaviour.

import (
	"testing"
	"time"

	"cosmossdk.io/math"
	sdk "github.com/cosmos/cosmos-sdk/types"
	teststaking "github.com/cosmos/cosmos-sdk/x/staking/testutil"
	"github.com/stretchr/testify/require"

	test_helpers "github.com/terra-money/alliance/app"
	"github.com/terra-money/alliance/x/alliance/types"
)

func TestReplayC20UnbondingQueryReturnsWholeBucket(t *testing.T) {
	app, ctx := createTestContext(t)
	start := time.Now().UTC()
	ctx = ctx.WithBlockTime(start).WithBlockHeight(1)
	app.AllianceKeeper.InitGenesis(ctx, &types.GenesisState{
		Params: types.DefaultParams(),
		Assets: []types.AllianceAsset{
			types.NewAllianceAsset(AllianceDenom, math.LegacyNewDec(2), math.LegacyNewDec(0), math.LegacyNewDec(5), math.LegacyNewDec(0), start),
			types.NewAllianceAsset(AllianceDenomTwo, math.LegacyNewDec(2), math.LegacyNewDec(0), math.LegacyNewDec(5), math.LegacyNewDec(0), start),
		},
	})
	addrs := test_helpers.AddTestAddrsIncremental(app, ctx, 3, sdk.NewCoins(
		sdk.NewCoin(AllianceDenom, math.NewInt(10_000_000)), sdk.NewCoin(AllianceDenomTwo, math.NewInt(10_000_000))))
	pks := test_helpers.CreateTestPubKeys(2)
	valAddr1, valAddr2 := sdk.ValAddress(addrs[0]), sdk.ValAddress(addrs[1])
	test_helpers.RegisterNewValidator(t, app, ctx, teststaking.NewValidator(t, valAddr1, pks[0]))
	test_helpers.RegisterNewValidator(t, app, ctx, teststaking.NewValidator(t, valAddr2, pks[1]))
	user := addrs[2]
	deleg := func(va sdk.ValAddress, denom string, n int64) {
		v, err := app.AllianceKeeper.GetAllianceValidator(ctx, va)
		require.NoError(t, err)
		_, err = app.AllianceKeeper.Delegate(ctx, user, v, sdk.NewCoin(denom, math.NewInt(n)))
		require.NoError(t, err)
	}
	undeleg := func(va sdk.ValAddress, denom string, n int64) {
		v, err := app.AllianceKeeper.GetAllianceValidator(ctx, va)
		require.NoError(t, err)
		_, err = app.AllianceKeeper.Undelegate(ctx, user, v, sdk.NewCoin(denom, math.NewInt(n)))
		require.NoError(t, err)
	}
	deleg(valAddr1, AllianceDenom, 1_000_000)
	deleg(valAddr1, AllianceDenomTwo, 1_000_000)
	deleg(valAddr2, AllianceDenom, 1_000_000)
	// same block, same delegator: three undelegations -> one (completion, delegator) bucket with three entries
	undeleg(valAddr1, AllianceDenom, 400_000)
	undeleg(valAddr1, AllianceDenomTwo, 400_000)
	undeleg(valAddr2, AllianceDenom, 400_000)

	res, err := app.AllianceKeeper.GetUnbondings(ctx, AllianceDenom, user, valAddr1)
	require.NoError(t, err)
	foreign := 0
	for _, r := range res {
		if r.ValidatorAddress != valAddr1.String() || r.Denom != AllianceDenom {
			foreign++
		}
	}
	res2, err := app.AllianceKeeper.GetUnbondingsByDenomAndDelegator(ctx, AllianceDenom, user)
	require.NoError(t, err)
	t.Logf("GetUnbondings(alliance, user, val1): %d results, %d not matching the filter; GetUnbondingsByDenomAndDelegator(alliance, user): %d results for 2 matching entries", len(res), foreign, len(res2))
	if foreign > 0 || len(res) != 1 || len(res2) != 2 {
		t.Fatalf("REPLAY-CONFIRMED: unbonding queries are not exact views: %d results (%d foreign) for 1 matching entry; %d results for 2 matching entries", len(res), foreign, len(res2))
	}
	t.Logf("REPLAY-NOT-CONFIRMED")
}
