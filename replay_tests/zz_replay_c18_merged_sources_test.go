package tests_test

// Replay for the bounded fact bounded:genesis:continuation_states_identical@merged_redelegation_sources (C18):
// a delegator redelegates from TWO source validators to the same destination in the same block. The redelegation record is keyed by
// (delegator, denom, destination, completion) - no source - so the two are merged into one record that names the FIRST source, while the
// by-source index has an entry for each. ExportGenesis lists the one record; InitGenesis rebuilds the index for the first source only.
// A later slash of the SECOND source reduces the destination position on the original state and not on the re-imported one.
// FAILS with REPLAY-CONFIRMED when the real code shows the behaviour.

import (
	"testing"
	"time"

	"cosmossdk.io/math"
	sdk "github.com/cosmos/cosmos-sdk/types"
	teststaking "github.com/cosmos/cosmos-sdk/x/staking/testutil"
	"github.com/stretchr/testify/require"

	test_helpers "github.com/terra-money/alliance/app"
	"github.com/terra-money/alliance/x/alliance/types"
)

func TestReplayC18MergedRedelegationSourcesLoseTheirIndexOnImport(t *testing.T) {
	app, ctx := createTestContext(t)
	start := time.Now().UTC()
	ctx = ctx.WithBlockTime(start).WithBlockHeight(1)
	app.AllianceKeeper.InitGenesis(ctx, &types.GenesisState{
		Params: types.DefaultParams(),
		Assets: []types.AllianceAsset{
			types.NewAllianceAsset(AllianceDenom, math.LegacyNewDec(2), math.LegacyNewDec(0), math.LegacyNewDec(100), math.LegacyNewDec(0), start),
		},
	})
	addrs := test_helpers.AddTestAddrsIncremental(app, ctx, 4, sdk.NewCoins(sdk.NewCoin(AllianceDenom, math.NewInt(10_000_000))))
	pks := test_helpers.CreateTestPubKeys(3)
	var vals []sdk.ValAddress
	for i := 0; i < 3; i++ {
		va := sdk.ValAddress(addrs[i])
		test_helpers.RegisterNewValidator(t, app, ctx, teststaking.NewValidator(t, va, pks[i]))
		vals = append(vals, va)
	}
	user := addrs[3]
	k := app.AllianceKeeper
	get := func(c sdk.Context, va sdk.ValAddress) types.AllianceValidator {
		v, err := k.GetAllianceValidator(c, va)
		require.NoError(t, err)
		return v
	}
	_, err := k.Delegate(ctx, user, get(ctx, vals[0]), sdk.NewCoin(AllianceDenom, math.NewInt(1_000_000)))
	require.NoError(t, err)
	_, err = k.Delegate(ctx, user, get(ctx, vals[1]), sdk.NewCoin(AllianceDenom, math.NewInt(1_000_000)))
	require.NoError(t, err)
	_, err = k.Redelegate(ctx, user, get(ctx, vals[0]), get(ctx, vals[2]), sdk.NewCoin(AllianceDenom, math.NewInt(300_000)))
	require.NoError(t, err)
	_, err = k.Redelegate(ctx, user, get(ctx, vals[1]), get(ctx, vals[2]), sdk.NewCoin(AllianceDenom, math.NewInt(200_000)))
	require.NoError(t, err)

	exported := k.ExportGenesis(ctx)
	orig, _ := ctx.CacheContext()
	reimp, _ := ctx.CacheContext()
	store := reimp.KVStore(app.GetKey(types.StoreKey))
	var keys [][]byte
	it := store.Iterator(nil, nil)
	for ; it.Valid(); it.Next() {
		keys = append(keys, append([]byte{}, it.Key()...))
	}
	it.Close()
	for _, key := range keys {
		store.Delete(key)
	}
	k.InitGenesis(reimp, exported)
	require.Equal(t, exported, k.ExportGenesis(reimp), "second export is identical")

	// the SECOND source is slashed by 50% one minute later, on both branches
	run := func(c sdk.Context) math.LegacyDec {
		c = c.WithBlockHeight(2).WithBlockTime(start.Add(time.Minute))
		require.NoError(t, k.SlashValidator(c, vals[1], math.LegacyNewDecWithPrec(5, 1)))
		d, found := k.GetDelegation(c, user, vals[2], AllianceDenom)
		require.True(t, found)
		return d.Shares
	}
	a, b := run(orig), run(reimp)
	t.Logf("exported redelegations: %d (source %s); destination shares after slashing the second source: original %s, re-imported %s", len(exported.Redelegations), exported.Redelegations[0].Redelegation.SrcValidatorAddress, a, b)
	if !a.Equal(b) {
		t.Fatalf("REPLAY-CONFIRMED: after export/import the slash of the second source no longer reaches the redelegated stake: destination shares %s on the original, %s on the re-imported state", a, b)
	}
	t.Logf("REPLAY-NOT-CONFIRMED")
}
