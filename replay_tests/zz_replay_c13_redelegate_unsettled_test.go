package tests_test

// Replay of the counterexample class to obligation
//   keeper.(Keeper).Redelegate:pre@keeper.(Keeper).Redelegate/upsertDelegationWithNewTokens#1:validator_rewards_settled_before_stake_grows (C13):
// a redelegation into a NEW destination position does not withdraw the destination validator's pending
// rewards first (Delegate does), so rewards that accrued before the position existed are shared with it.
// FAILS with REPLAY-CONFIRMED when the real code shows the behaviour.

import (
	"testing"
	"time"

	"cosmossdk.io/math"
	abcitypes "github.com/cometbft/cometbft/abci/types"
	sdk "github.com/cosmos/cosmos-sdk/types"
	authtypes "github.com/cosmos/cosmos-sdk/x/auth/types"
	minttypes "github.com/cosmos/cosmos-sdk/x/mint/types"
	teststaking "github.com/cosmos/cosmos-sdk/x/staking/testutil"
	stakingtypes "github.com/cosmos/cosmos-sdk/x/staking/types"
	"github.com/stretchr/testify/require"

	test_helpers "github.com/terra-money/alliance/app"
	"github.com/terra-money/alliance/x/alliance/types"
)

func TestReplayC13RedelegateIntoNewPositionNotSettled(t *testing.T) {
	app, ctx := createTestContext(t)
	ctx = ctx.WithBlockHeight(1)
	app.AllianceKeeper.InitGenesis(ctx, &types.GenesisState{
		Params: types.DefaultParams(),
		Assets: []types.AllianceAsset{
			types.NewAllianceAsset(AllianceDenom, math.LegacyNewDec(2), math.LegacyNewDec(0), math.LegacyNewDec(5), math.LegacyNewDec(0), ctx.BlockTime()),
		},
	})
	distParams, err := app.DistrKeeper.Params.Get(ctx)
	require.NoError(t, err)
	distParams.CommunityTax = math.LegacyZeroDec()
	require.NoError(t, app.DistrKeeper.Params.Set(ctx, distParams))
	bondDenom, err := app.StakingKeeper.BondDenom(ctx)
	require.NoError(t, err)
	addrs := test_helpers.AddTestAddrsIncremental(app, ctx, 4, sdk.NewCoins(sdk.NewCoin(AllianceDenom, math.NewInt(10_000_000))))
	pks := test_helpers.CreateTestPubKeys(2)
	mk := func(i int) (sdk.ValAddress, stakingtypes.Validator) {
		va := sdk.ValAddress(addrs[i])
		v := teststaking.NewValidator(t, va, pks[i])
		v.Commission = stakingtypes.Commission{CommissionRates: stakingtypes.CommissionRates{Rate: math.LegacyNewDec(0), MaxRate: math.LegacyNewDec(0), MaxChangeRate: math.LegacyNewDec(0)}, UpdateTime: time.Now()}
		test_helpers.RegisterNewValidator(t, app, ctx, v)
		return va, v
	}
	valAddr1, _ := mk(0)
	valAddr2, _ := mk(1)
	val1, _ := app.AllianceKeeper.GetAllianceValidator(ctx, valAddr1)
	val2, _ := app.AllianceKeeper.GetAllianceValidator(ctx, valAddr2)
	newcomer, incumbent := addrs[2], addrs[3]
	require.NoError(t, app.BankKeeper.MintCoins(ctx, minttypes.ModuleName, sdk.NewCoins(sdk.NewCoin(bondDenom, math.NewInt(40_000_000)))))

	_, err = app.AllianceKeeper.Delegate(ctx, incumbent, val2, sdk.NewCoin(AllianceDenom, math.NewInt(1_000_000)))
	require.NoError(t, err)
	val1, _ = app.AllianceKeeper.GetAllianceValidator(ctx, valAddr1)
	_, err = app.AllianceKeeper.Delegate(ctx, newcomer, val1, sdk.NewCoin(AllianceDenom, math.NewInt(1_000_000)))
	require.NoError(t, err)
	require.NoError(t, app.AllianceKeeper.RebalanceBondTokenWeights(ctx, app.AllianceKeeper.GetAllAssets(ctx)))

	// 10,000,000 of rewards accrue to validator 2 while only the incumbent is staked there
	require.NoError(t, app.BankKeeper.SendCoinsFromModuleToModule(ctx, minttypes.ModuleName, authtypes.FeeCollectorName, sdk.NewCoins(sdk.NewCoin(bondDenom, math.NewInt(10_000_000)))))
	ctx = ctx.WithBlockHeight(ctx.BlockHeight() + 1)
	val2, _ = app.AllianceKeeper.GetAllianceValidator(ctx, valAddr2)
	cons2, _ := val2.GetConsAddr()
	require.NoError(t, app.DistrKeeper.AllocateTokens(ctx, 100, []abcitypes.VoteInfo{{Validator: abcitypes.Validator{Address: cons2, Power: 100}}}))

	// the newcomer arrives by redelegation (a new position on validator 2)
	val1, _ = app.AllianceKeeper.GetAllianceValidator(ctx, valAddr1)
	val2, _ = app.AllianceKeeper.GetAllianceValidator(ctx, valAddr2)
	_, err = app.AllianceKeeper.Redelegate(ctx, newcomer, val1, val2, sdk.NewCoin(AllianceDenom, math.NewInt(1_000_000)))
	require.NoError(t, err)

	val2, _ = app.AllianceKeeper.GetAllianceValidator(ctx, valAddr2)
	gotNew, err := app.AllianceKeeper.ClaimDelegationRewards(ctx, newcomer, val2, AllianceDenom)
	require.NoError(t, err)
	val2, _ = app.AllianceKeeper.GetAllianceValidator(ctx, valAddr2)
	gotOld, err := app.AllianceKeeper.ClaimDelegationRewards(ctx, incumbent, val2, AllianceDenom)
	require.NoError(t, err)
	t.Logf("rewards that accrued before the newcomer's position existed: newcomer got %s, incumbent got %s", gotNew.AmountOf(bondDenom), gotOld.AmountOf(bondDenom))
	if gotNew.AmountOf(bondDenom).GT(math.NewInt(1)) {
		t.Fatalf("REPLAY-CONFIRMED: new stake arriving by redelegation was paid %s of rewards accrued before it existed (incumbent %s)", gotNew.AmountOf(bondDenom), gotOld.AmountOf(bondDenom))
	}
	t.Logf("REPLAY-NOT-CONFIRMED")
}
