package tests_test

// Replay for obligation keeper.(Keeper).RewardWeightChangeHook:assert@keeper.(Keeper).RewardWeightChangeHook/Power#1:power_cannot_overflow (C17):
// the governance handlers accept any positive RewardChangeRate and any non-negative RewardChangeInterval. The end blocker compounds
// rate^n for n = elapsed / interval BEFORE clamping the weight to its range; LegacyDec.Power panics ("Int overflow") once rate^n needs more
// than 315 bits. A growth schedule with a short interval (accepted) therefore halts the chain at the first block after the reward start.
// FAILS with REPLAY-CONFIRMED when the real code shows the behaviour.

import (
	"fmt"
	"testing"
	"time"

	"cosmossdk.io/math"
	sdk "github.com/cosmos/cosmos-sdk/types"
	"github.com/stretchr/testify/require"

	"github.com/terra-money/alliance/x/alliance"
	"github.com/terra-money/alliance/x/alliance/keeper"
	"github.com/terra-money/alliance/x/alliance/types"
)

func TestReplayC17WeightScheduleOverflowHaltsEndBlock(t *testing.T) {
	app, ctx := createTestContext(t)
	start := time.Now()
	ctx = ctx.WithBlockTime(start).WithBlockHeight(1)
	app.AllianceKeeper.InitGenesis(ctx, &types.GenesisState{Params: types.DefaultParams()})
	ms := keeper.NewMsgServerImpl(app.AllianceKeeper)
	// accepted by the handler: weight doubles every 10 ms, capped (by the range) at 5
	_, err := ms.CreateAlliance(ctx, &types.MsgCreateAlliance{
		Authority: app.AllianceKeeper.GetAuthority(), Denom: AllianceDenom, RewardWeight: math.LegacyOneDec(),
		RewardWeightRange: types.RewardWeightRange{Min: math.LegacyZeroDec(), Max: math.LegacyNewDec(5)},
		TakeRate:          math.LegacyZeroDec(), RewardChangeRate: math.LegacyNewDec(2), RewardChangeInterval: 10 * time.Millisecond,
	})
	require.NoError(t, err, "the handler accepts the schedule")
	var panicked interface{}
	run := func(c sdk.Context) (err error) {
		defer func() { panicked = recover() }()
		return alliance.EndBlocker(c, app.AllianceKeeper)
	}
	require.NoError(t, run(ctx))
	require.Nil(t, panicked)
	// one ordinary 6-second block later
	delay := app.AllianceKeeper.RewardDelayTime(ctx)
	ctx = ctx.WithBlockHeight(2).WithBlockTime(start.Add(delay).Add(6 * time.Second))
	err = run(ctx)
	if panicked != nil {
		t.Fatalf("REPLAY-CONFIRMED: the end blocker panics one block after the reward start of an alliance whose accepted schedule doubles the weight every 10ms: %v", fmt.Sprint(panicked))
	}
	t.Logf("REPLAY-NOT-CONFIRMED: end blocker returned %v", err)
}
