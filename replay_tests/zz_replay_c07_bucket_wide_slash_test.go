package tests_test

// Replay of the counterexample class to obligation keeper.(Keeper).slashUndelegations:post:scoped_to_validator (C07):
// the per-validator index resolves to a (completion time, delegator) bucket and EVERY entry of that bucket is
// slashed, once per index key that points to it: entries that originated from another validator are slashed,
// and entries are slashed more than once. FAILS with REPLAY-CONFIRMED when the real code shows the behaviour.

import (
	"testing"
	"time"

	"cosmossdk.io/math"
	sdk "github.com/cosmos/cosmos-sdk/types"
	teststaking "github.com/cosmos/cosmos-sdk/x/staking/testutil"
	"github.com/stretchr/testify/require"

	test_helpers "github.com/terra-money/alliance/app"
	"github.com/terra-money/alliance/x/alliance/types"
)

func TestReplayC07BucketWideSlash(t *testing.T) {
	app, ctx := createTestContext(t)
	start := time.Now().UTC()
	ctx = ctx.WithBlockTime(start).WithBlockHeight(1)
	app.AllianceKeeper.InitGenesis(ctx, &types.GenesisState{
		Params: types.DefaultParams(),
		Assets: []types.AllianceAsset{
			types.NewAllianceAsset(AllianceDenom, math.LegacyNewDec(2), math.LegacyNewDec(0), math.LegacyNewDec(5), math.LegacyNewDec(0), start),
			types.NewAllianceAsset(AllianceDenomTwo, math.LegacyNewDec(2), math.LegacyNewDec(0), math.LegacyNewDec(5), math.LegacyNewDec(0), start),
		},
	})
	addrs := test_helpers.AddTestAddrsIncremental(app, ctx, 3, sdk.NewCoins(
		sdk.NewCoin(AllianceDenom, math.NewInt(10_000_000)), sdk.NewCoin(AllianceDenomTwo, math.NewInt(10_000_000))))
	pks := test_helpers.CreateTestPubKeys(2)
	valAddr1, valAddr2 := sdk.ValAddress(addrs[0]), sdk.ValAddress(addrs[1])
	test_helpers.RegisterNewValidator(t, app, ctx, teststaking.NewValidator(t, valAddr1, pks[0]))
	test_helpers.RegisterNewValidator(t, app, ctx, teststaking.NewValidator(t, valAddr2, pks[1]))
	user := addrs[2]
	deleg := func(va sdk.ValAddress, denom string, n int64) {
		v, err := app.AllianceKeeper.GetAllianceValidator(ctx, va)
		require.NoError(t, err)
		_, err = app.AllianceKeeper.Delegate(ctx, user, v, sdk.NewCoin(denom, math.NewInt(n)))
		require.NoError(t, err)
	}
	undeleg := func(va sdk.ValAddress, denom string, n int64) {
		v, err := app.AllianceKeeper.GetAllianceValidator(ctx, va)
		require.NoError(t, err)
		_, err = app.AllianceKeeper.Undelegate(ctx, user, v, sdk.NewCoin(denom, math.NewInt(n)))
		require.NoError(t, err)
	}
	deleg(valAddr1, AllianceDenom, 1_000_000)
	deleg(valAddr1, AllianceDenomTwo, 1_000_000)
	deleg(valAddr2, AllianceDenom, 1_000_000)
	// same block, same delegator: three undelegations -> one (completion, delegator) bucket with three entries
	undeleg(valAddr1, AllianceDenom, 400_000)
	undeleg(valAddr1, AllianceDenomTwo, 400_000)
	undeleg(valAddr2, AllianceDenom, 400_000)

	require.NoError(t, app.AllianceKeeper.SlashValidator(ctx, valAddr1, math.LegacyMustNewDecFromStr("0.5")))

	var got []string
	bad := false
	app.AllianceKeeper.IterateUndelegations(ctx, func(q types.QueuedUndelegation, _ time.Time) bool {
		for _, e := range q.Entries {
			got = append(got, e.ValidatorAddress[len(e.ValidatorAddress)-6:]+":"+e.Balance.String())
			want := math.NewInt(400_000)
			if e.ValidatorAddress == valAddr1.String() {
				want = math.NewInt(200_000) // floor(0.5 x 400000), once
			}
			if !e.Balance.Amount.Equal(want) {
				bad = true
			}
		}
		return false
	})
	t.Logf("pending unbondings after slashing validator 1 by 0.5: %v", got)
	if bad {
		t.Fatalf("REPLAY-CONFIRMED: entries of another validator were slashed and/or entries were slashed more than once: %v", got)
	}
	t.Logf("REPLAY-NOT-CONFIRMED")
}
