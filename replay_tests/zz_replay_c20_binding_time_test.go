package bindings_test

// Replay of the counterexample to obligation bindings.(*QueryPlugin).GetAlliance:post:time_fields_are_the_times (C20):
// the contract-facing binding reports time.Time.Nanosecond() (the nanosecond offset WITHIN the second, 0..999999999)
// for reward_start_time / last_reward_change_time instead of the time the gRPC query reports.
// FAILS with REPLAY-CONFIRMED when the real code shows the behaviour.

import (
	"encoding/json"
	"testing"
	"time"

	"cosmossdk.io/math"
	"github.com/stretchr/testify/require"

	"github.com/terra-money/alliance/x/alliance/bindings"
	bindingtypes "github.com/terra-money/alliance/x/alliance/bindings/types"
	"github.com/terra-money/alliance/x/alliance/types"
)

func TestReplayC20BindingTimeFields(t *testing.T) {
	app, ctx := createTestContext(t)
	start := time.Date(2030, 1, 2, 3, 4, 5, 678, time.UTC)
	ctx = ctx.WithBlockTime(start)
	app.AllianceKeeper.InitGenesis(ctx, &types.GenesisState{
		Params: types.DefaultParams(),
		Assets: []types.AllianceAsset{
			types.NewAllianceAsset("alliance", math.LegacyNewDec(2), math.LegacyZeroDec(), math.LegacyNewDec(5), math.LegacyZeroDec(), start),
		},
	})
	qp := bindings.NewAllianceQueryPlugin(&app.AllianceKeeper)
	res, err := qp.GetAlliance(ctx, "alliance")
	require.NoError(t, err)
	var out bindingtypes.AllianceResponse
	require.NoError(t, json.Unmarshal(res, &out))
	asset, _ := app.AllianceKeeper.GetAssetByDenom(ctx, "alliance")
	t.Logf("binding reward_start_time=%d; asset.RewardStartTime=%s (UnixNano %d)", out.RewardStartTime, asset.RewardStartTime, asset.RewardStartTime.UnixNano())
	if out.RewardStartTime != uint64(asset.RewardStartTime.UnixNano()) && out.RewardStartTime != uint64(asset.RewardStartTime.Unix()) {
		t.Fatalf("REPLAY-CONFIRMED: the binding reports %d for reward_start_time, which is not the reward start time %s", out.RewardStartTime, asset.RewardStartTime)
	}
	t.Logf("REPLAY-NOT-CONFIRMED")
}
