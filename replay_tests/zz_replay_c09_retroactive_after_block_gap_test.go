package tests_test

// Replay for the bounded fact bounded:schedule:deposit_not_charged_for_earlier_intervals@block_gap_of_several_intervals (C09):
// the take-rate deduction runs at the END of a block and charges every whole claim interval since its clock. When blocks are irregular
// and a block arrives several intervals after the previous deduction, stake deposited IN that block is charged for all of those
// intervals although it did not exist during any of them ("never charged for intervals that elapsed before it was deposited").
// FAILS with REPLAY-CONFIRMED when the real code shows the behaviour.

import (
	"testing"
	"time"

	"cosmossdk.io/math"
	sdk "github.com/cosmos/cosmos-sdk/types"
	teststaking "github.com/cosmos/cosmos-sdk/x/staking/testutil"
	"github.com/stretchr/testify/require"

	test_helpers "github.com/terra-money/alliance/app"
	"github.com/terra-money/alliance/x/alliance"
	"github.com/terra-money/alliance/x/alliance/types"
)

func TestReplayC09DepositChargedForIntervalsBeforeItExisted(t *testing.T) {
	app, ctx := createTestContext(t)
	start := time.Now().UTC().Truncate(time.Second)
	ctx = ctx.WithBlockTime(start).WithBlockHeight(1)
	interval := 5 * time.Minute
	app.AllianceKeeper.InitGenesis(ctx, &types.GenesisState{
		Params: types.Params{RewardDelayTime: time.Hour, TakeRateClaimInterval: interval, LastTakeRateClaimTime: start},
		Assets: []types.AllianceAsset{
			types.NewAllianceAsset(AllianceDenom, math.LegacyNewDec(1), math.LegacyNewDec(0), math.LegacyNewDec(5), math.LegacyMustNewDecFromStr("0.1"), start),
		},
	})
	addrs := test_helpers.AddTestAddrsIncremental(app, ctx, 3, sdk.NewCoins(sdk.NewCoin(AllianceDenom, math.NewInt(10_000_000_000))))
	valAddr := sdk.ValAddress(addrs[0])
	test_helpers.RegisterNewValidator(t, app, ctx, teststaking.NewValidator(t, valAddr, test_helpers.CreateTestPubKeys(1)[0]))
	get := func() types.AllianceValidator {
		v, err := app.AllianceKeeper.GetAllianceValidator(ctx, valAddr)
		require.NoError(t, err)
		return v
	}
	_, err := app.AllianceKeeper.Delegate(ctx, addrs[1], get(), sdk.NewCoin(AllianceDenom, math.NewInt(1_000_000_000)))
	require.NoError(t, err)
	require.NoError(t, alliance.EndBlocker(ctx, app.AllianceKeeper))

	// the next block arrives 26 minutes later (five whole claim intervals); a newcomer deposits in it
	ctx = ctx.WithBlockHeight(2).WithBlockTime(start.Add(26 * time.Minute))
	deposit := math.NewInt(1_000_000)
	_, err = app.AllianceKeeper.Delegate(ctx, addrs[2], get(), sdk.NewCoin(AllianceDenom, deposit))
	require.NoError(t, err)
	require.NoError(t, alliance.EndBlocker(ctx, app.AllianceKeeper))
	d, _ := app.AllianceKeeper.GetDelegation(ctx, addrs[2], valAddr, AllianceDenom)
	asset, _ := app.AllianceKeeper.GetAssetByDenom(ctx, AllianceDenom)
	worth := types.GetDelegationTokens(d, get(), asset).Amount
	t.Logf("deposited %s at rate 10%% per interval in a block five intervals after the last deduction; worth %s at the end of that block", deposit, worth)
	if worth.LT(math.NewInt(899_990)) {
		t.Fatalf("REPLAY-CONFIRMED: the deposit was charged for intervals that elapsed before it existed: %s -> %s (one interval would leave 900000)", deposit, worth)
	}
	t.Logf("REPLAY-NOT-CONFIRMED")
}
