package tests_test

// Replays for the bounded facts bounded:positions:reported_balance_can_be_undelegated@18dec,
// bounded:positions:undelegating_the_reported_balance_does_not_panic@18dec (C05, C20) and
// bounded:positions:other_positions_unchanged@zero_valued_validator / actor_moves_the_amount@zero_valued_validator (C04):
// with 18-decimal magnitudes (1e18 .. 1e30 base units) the 18-digit share/token ratios lose the low digits, the reported
// balance (which adds the 0.01 Rounder before truncating) exceeds what ValidateDelegatedAmount accepts, and the share
// subtraction can go negative (panic). After a 100% slash of the only staked validator the next depositor is credited
// with the whole staked total. Each test FAILS with REPLAY-CONFIRMED when the real code shows the behaviour.

import (
	"testing"
	"time"

	"cosmossdk.io/math"
	sdk "github.com/cosmos/cosmos-sdk/types"
	teststaking "github.com/cosmos/cosmos-sdk/x/staking/testutil"
	"github.com/stretchr/testify/require"

	test_helpers "github.com/terra-money/alliance/app"
	"github.com/terra-money/alliance/x/alliance/keeper"
	"github.com/terra-money/alliance/x/alliance/types"
)

func replay18decSetup(t *testing.T) (*test_helpers.App, sdk.Context, []sdk.AccAddress, []sdk.ValAddress) {
	app, ctx := createTestContext(t)
	start := time.Now().UTC()
	ctx = ctx.WithBlockTime(start).WithBlockHeight(1)
	app.AllianceKeeper.InitGenesis(ctx, &types.GenesisState{
		Params: types.DefaultParams(),
		Assets: []types.AllianceAsset{
			types.NewAllianceAsset(AllianceDenom, math.LegacyNewDec(2), math.LegacyNewDec(0), math.LegacyNewDec(100), math.LegacyNewDec(0), start),
		},
	})
	e32, _ := math.NewIntFromString("100000000000000000000000000000000")
	addrs := test_helpers.AddTestAddrsIncremental(app, ctx, 6, sdk.NewCoins(sdk.NewCoin(AllianceDenom, e32)))
	pks := test_helpers.CreateTestPubKeys(3)
	var vals []sdk.ValAddress
	for i := 0; i < 3; i++ {
		va := sdk.ValAddress(addrs[i])
		test_helpers.RegisterNewValidator(t, app, ctx, teststaking.NewValidator(t, va, pks[i]))
		vals = append(vals, va)
	}
	return app, ctx, addrs[3:], vals
}

func replayVal(t *testing.T, k keeper.Keeper, ctx sdk.Context, va sdk.ValAddress) types.AllianceValidator {
	v, err := k.GetAllianceValidator(ctx, va)
	require.NoError(t, err)
	return v
}

func replayReported(t *testing.T, k keeper.Keeper, ctx sdk.Context, who sdk.AccAddress, va sdk.ValAddress) math.Int {
	d, found := k.GetDelegation(ctx, who, va, AllianceDenom)
	require.True(t, found)
	asset, _ := k.GetAssetByDenom(ctx, AllianceDenom)
	return types.GetDelegationTokens(d, replayVal(t, k, ctx, va), asset).Amount
}

func TestReplayC20ReportedBalanceCannotBeUndelegated(t *testing.T) {
	app, ctx, users, vals := replay18decSetup(t)
	e24, _ := math.NewIntFromString("1000000000000000000000000")
	e18 := math.NewInt(1_000_000_000_000_000_000)
	k := app.AllianceKeeper
	_, err := k.Delegate(ctx, users[0], replayVal(t, k, ctx, vals[1]), sdk.NewCoin(AllianceDenom, e24))
	require.NoError(t, err)
	_, err = k.Delegate(ctx, users[1], replayVal(t, k, ctx, vals[1]), sdk.NewCoin(AllianceDenom, e18))
	require.NoError(t, err)
	reported := replayReported(t, k, ctx, users[1], vals[1])
	_, uerr := k.Undelegate(ctx, users[1], replayVal(t, k, ctx, vals[1]), sdk.NewCoin(AllianceDenom, reported))
	t.Logf("deposited %s, reported balance %s, undelegating the reported balance: %v", e18, reported, uerr)
	if uerr != nil {
		t.Fatalf("REPLAY-CONFIRMED: the reported balance %s (deposit %s) cannot be undelegated: %v", reported, e18, uerr)
	}
	t.Logf("REPLAY-NOT-CONFIRMED")
}

func TestReplayC05UndelegatingReportedBalancePanics(t *testing.T) {
	app, ctx, users, vals := replay18decSetup(t)
	e24, _ := math.NewIntFromString("1000000000000000000000000")
	e18 := math.NewInt(1_000_000_000_000_000_000)
	k := app.AllianceKeeper
	_, err := k.Delegate(ctx, users[0], replayVal(t, k, ctx, vals[2]), sdk.NewCoin(AllianceDenom, e18))
	require.NoError(t, err)
	_, err = k.Delegate(ctx, users[0], replayVal(t, k, ctx, vals[0]), sdk.NewCoin(AllianceDenom, e24))
	require.NoError(t, err)
	reported := replayReported(t, k, ctx, users[0], vals[2])
	var rec interface{}
	var uerr error
	func() {
		defer func() { rec = recover() }()
		_, uerr = k.Undelegate(ctx, users[0], replayVal(t, k, ctx, vals[2]), sdk.NewCoin(AllianceDenom, reported))
	}()
	t.Logf("deposited %s, reported balance %s, undelegating it: err %v panic %v", e18, reported, uerr, rec)
	if rec != nil {
		t.Fatalf("REPLAY-CONFIRMED: undelegating the reported balance %s panics: %v", reported, rec)
	}
	t.Logf("REPLAY-NOT-CONFIRMED")
}

func TestReplayC05RedelegatingReportedBalancePanics(t *testing.T) {
	app, ctx, users, vals := replay18decSetup(t)
	e24, _ := math.NewIntFromString("1000000000000000000000000")
	e18 := math.NewInt(1_000_000_000_000_000_000)
	k := app.AllianceKeeper
	_, err := k.Delegate(ctx, users[0], replayVal(t, k, ctx, vals[2]), sdk.NewCoin(AllianceDenom, e18))
	require.NoError(t, err)
	_, err = k.Delegate(ctx, users[0], replayVal(t, k, ctx, vals[0]), sdk.NewCoin(AllianceDenom, e24))
	require.NoError(t, err)
	reported := replayReported(t, k, ctx, users[0], vals[2])
	var rec interface{}
	var rerr error
	func() {
		defer func() { rec = recover() }()
		_, rerr = k.Redelegate(ctx, users[0], replayVal(t, k, ctx, vals[2]), replayVal(t, k, ctx, vals[1]), sdk.NewCoin(AllianceDenom, reported))
	}()
	t.Logf("deposited %s, reported balance %s, redelegating it: err %v panic %v", e18, reported, rerr, rec)
	if rec != nil {
		t.Fatalf("REPLAY-CONFIRMED: redelegating the reported balance %s panics: %v", reported, rec)
	}
	t.Logf("REPLAY-NOT-CONFIRMED")
}

func TestReplayC04DepositAfterFullSlashCapturesTheStakedTotal(t *testing.T) {
	app, ctx, users, vals := replay18decSetup(t)
	k := app.AllianceKeeper
	_, err := k.Delegate(ctx, users[0], replayVal(t, k, ctx, vals[1]), sdk.NewCoin(AllianceDenom, math.NewInt(1_000_000_000)))
	require.NoError(t, err)
	require.NoError(t, k.SlashValidator(ctx, vals[1], math.LegacyOneDec()))
	before := replayReported(t, k, ctx, users[0], vals[1])
	_, err = k.Delegate(ctx, users[1], replayVal(t, k, ctx, vals[0]), sdk.NewCoin(AllianceDenom, math.NewInt(1_000)))
	require.NoError(t, err)
	after := replayReported(t, k, ctx, users[0], vals[1])
	got := replayReported(t, k, ctx, users[1], vals[0])
	t.Logf("fully slashed delegator: %s -> %s; newcomer deposited 1000 and is reported %s", before, after, got)
	if got.GT(math.NewInt(1_001)) {
		t.Fatalf("REPLAY-CONFIRMED: a deposit of 1000 after a 100%% slash of the only staked validator is credited %s; the slashed delegator's reported value went %s -> %s", got, before, after)
	}
	t.Logf("REPLAY-NOT-CONFIRMED")
}
