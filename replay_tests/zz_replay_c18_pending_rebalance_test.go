package tests_test

// Replay for obligation keeper.(Keeper).InitGenesis:post:pending_rebalance_not_lost (C18):
// while an alliance's rewards have not started, RebalanceBondTokenWeights re-queues the rebalance event at the
// end of every block ("so that we keep checking if the asset rewards has started in the next block"), so the
// AssetRebalanceQueueKey flag is set at every block boundary. ExportGenesis has no field for it and InitGenesis
// never sets it: after export + import into an empty module store the pending rebalance is gone, and at the
// block where rewards start the original chain bonds stake for the alliance while the re-imported one does not.
// FAILS with REPLAY-CONFIRMED when the real code shows the behaviour.

import (
	"testing"
	"time"

	"cosmossdk.io/math"
	sdk "github.com/cosmos/cosmos-sdk/types"
	"github.com/stretchr/testify/require"

	test_helpers "github.com/terra-money/alliance/app"
	"github.com/terra-money/alliance/x/alliance"
	"github.com/terra-money/alliance/x/alliance/types"
)

func TestReplayC18PendingRebalanceLostOnImport(t *testing.T) {
	app, ctx := createTestContext(t)
	start := ctx.BlockTime()
	ctx = ctx.WithBlockHeight(1).WithBlockTime(start)
	rewardStart := start.Add(time.Hour)
	app.AllianceKeeper.InitGenesis(ctx, &types.GenesisState{
		Params: types.DefaultParams(),
		Assets: []types.AllianceAsset{
			types.NewAllianceAsset(AllianceDenom, math.LegacyNewDec(2), math.LegacyNewDec(0), math.LegacyNewDec(5), math.LegacyNewDec(0), rewardStart),
		},
	})
	delegations, err := app.StakingKeeper.GetAllDelegations(ctx)
	require.NoError(t, err)
	valAddr, err := sdk.ValAddressFromBech32(delegations[0].ValidatorAddress)
	require.NoError(t, err)
	val, err := app.AllianceKeeper.GetAllianceValidator(ctx, valAddr)
	require.NoError(t, err)
	addrs := test_helpers.AddTestAddrsIncremental(app, ctx, 1, sdk.NewCoins(sdk.NewCoin(AllianceDenom, math.NewInt(10_000_000))))
	_, err = app.AllianceKeeper.Delegate(ctx, addrs[0], val, sdk.NewCoin(AllianceDenom, math.NewInt(1_000_000)))
	require.NoError(t, err)
	// end of block 1: rewards not started, the rebalance re-queues itself
	require.NoError(t, alliance.EndBlocker(ctx, app.AllianceKeeper))

	// block boundary: export, then import into an emptied module store on a branch sharing bank/staking state
	exported := app.AllianceKeeper.ExportGenesis(ctx)
	orig, _ := ctx.CacheContext()
	reimp, _ := ctx.CacheContext()
	store := reimp.KVStore(app.GetKey(types.StoreKey))
	var keys [][]byte
	it := store.Iterator(nil, nil)
	for ; it.Valid(); it.Next() {
		keys = append(keys, append([]byte{}, it.Key()...))
	}
	it.Close()
	for _, k := range keys {
		store.Delete(k)
	}
	app.AllianceKeeper.InitGenesis(reimp, exported)
	require.Equal(t, exported, app.AllianceKeeper.ExportGenesis(reimp), "second export is identical")

	// the same continuation on both: one block after rewards have started
	moduleAddr := app.AccountKeeper.GetModuleAddress(types.ModuleName)
	later := rewardStart.Add(time.Minute)
	run := func(c sdk.Context) math.Int {
		c = c.WithBlockHeight(2).WithBlockTime(later)
		require.NoError(t, alliance.EndBlocker(c, app.AllianceKeeper))
		bonded, err := app.AllianceKeeper.GetAllianceBondedAmount(c, moduleAddr)
		require.NoError(t, err)
		return bonded
	}
	a, b := run(orig), run(reimp)
	t.Logf("alliance bonded stake after the block in which rewards start: original %s, re-imported %s", a, b)
	if !a.Equal(b) {
		t.Fatalf("REPLAY-CONFIRMED: the pending rebalance is lost by export/import: original bonds %s, re-imported state bonds %s", a, b)
	}
	t.Logf("REPLAY-NOT-CONFIRMED")
}
