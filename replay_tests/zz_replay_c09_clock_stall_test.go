package tests_test

// Replay of the counterexample class to obligation
//   keeper.(Keeper).DeductAssetsWithTakeRate:post:clock_never_lags_an_interval (C09):
// a chargeable asset exists but every deduction truncates to nothing (1 base unit staked): the take-rate
// clock is not advanced ("Only update if there was a token transfer"), so a later deposit is charged
// for all the stalled intervals. FAILS with REPLAY-CONFIRMED when the real code shows the behaviour.

import (
	"testing"
	"time"

	"cosmossdk.io/math"
	sdk "github.com/cosmos/cosmos-sdk/types"
	"github.com/stretchr/testify/require"

	test_helpers "github.com/terra-money/alliance/app"
	"github.com/terra-money/alliance/x/alliance/types"
)

func TestReplayC09ClockStallOnDust(t *testing.T) {
	app, ctx := createTestContext(t)
	start := time.Now().UTC()
	ctx = ctx.WithBlockTime(start).WithBlockHeight(1)
	interval := time.Minute
	app.AllianceKeeper.InitGenesis(ctx, &types.GenesisState{
		Params: types.Params{RewardDelayTime: 0, TakeRateClaimInterval: interval, LastTakeRateClaimTime: start},
		Assets: []types.AllianceAsset{
			types.NewAllianceAsset(AllianceDenom, math.LegacyNewDec(2), math.LegacyZeroDec(), math.LegacyNewDec(5), math.LegacyMustNewDecFromStr("0.1"), start),
		},
	})
	delegations, err := app.StakingKeeper.GetAllDelegations(ctx)
	require.NoError(t, err)
	valAddr1, err := sdk.ValAddressFromBech32(delegations[0].ValidatorAddress)
	require.NoError(t, err)
	val1, err := app.AllianceKeeper.GetAllianceValidator(ctx, valAddr1)
	require.NoError(t, err)
	addrs := test_helpers.AddTestAddrsIncremental(app, ctx, 2, sdk.NewCoins(sdk.NewCoin(AllianceDenom, math.NewInt(10_000_000))))
	_, err = app.AllianceKeeper.Delegate(ctx, addrs[0], val1, sdk.NewCoin(AllianceDenom, math.NewInt(1)))
	require.NoError(t, err)

	// 20 intervals with only one base unit staked: one end-of-block take-rate step per interval
	for i := 1; i <= 20; i++ {
		ctx = ctx.WithBlockTime(start.Add(time.Duration(i)*interval + time.Second)).WithBlockHeight(int64(1 + i))
		_, err = app.AllianceKeeper.DeductAssetsHook(ctx, app.AllianceKeeper.GetAllAssets(ctx))
		require.NoError(t, err)
	}
	lag := ctx.BlockTime().Sub(app.AllianceKeeper.LastRewardClaimTime(ctx))
	t.Logf("after 20 intervals of dust: clock lags the block time by %s (interval %s)", lag, interval)

	// a deposit arrives now; one more interval later it must have been charged for about one interval
	val1, _ = app.AllianceKeeper.GetAllianceValidator(ctx, valAddr1)
	_, err = app.AllianceKeeper.Delegate(ctx, addrs[1], val1, sdk.NewCoin(AllianceDenom, math.NewInt(1_000_000)))
	require.NoError(t, err)
	ctx = ctx.WithBlockTime(ctx.BlockTime().Add(interval)).WithBlockHeight(ctx.BlockHeight() + 1)
	_, err = app.AllianceKeeper.DeductAssetsHook(ctx, app.AllianceKeeper.GetAllAssets(ctx))
	require.NoError(t, err)
	asset, _ := app.AllianceKeeper.GetAssetByDenom(ctx, AllianceDenom)
	t.Logf("TotalTokens one interval after depositing 1000000 at 10%%/interval: %s", asset.TotalTokens)
	if lag >= interval && asset.TotalTokens.LT(math.NewInt(800_000)) {
		t.Fatalf("REPLAY-CONFIRMED: clock lagged %s (>= one interval) and the new deposit was charged retroactively: TotalTokens=%s, expected about 900000", lag, asset.TotalTokens)
	}
	t.Logf("REPLAY-NOT-CONFIRMED")
}
