package tests_test

// Replay of the counterexample to obligation keeper.(MsgServer).CreateAlliance:post:valid (C01/C11/C16 conjunct
// "an alliance denom is never the staking bond denom"): the handler whitelists the bond denom; delegated coins
// then sit in the module account as bond-denom coins, and CompleteUnbondings burns the module account's whole
// bond-denom balance at the next end of block: custody falls short of the recorded staked total.
// FAILS with REPLAY-CONFIRMED when the real code shows the behaviour.

import (
	"testing"
	"time"

	"cosmossdk.io/math"
	sdk "github.com/cosmos/cosmos-sdk/types"
	authtypes "github.com/cosmos/cosmos-sdk/x/auth/types"
	govtypes "github.com/cosmos/cosmos-sdk/x/gov/types"
	"github.com/stretchr/testify/require"

	test_helpers "github.com/terra-money/alliance/app"
	"github.com/terra-money/alliance/x/alliance"
	"github.com/terra-money/alliance/x/alliance/keeper"
	"github.com/terra-money/alliance/x/alliance/types"
)

func TestReplayC01BondDenomWhitelisted(t *testing.T) {
	app, ctx := createTestContext(t)
	start := time.Now().UTC()
	ctx = ctx.WithBlockTime(start).WithBlockHeight(1)
	app.AllianceKeeper.InitGenesis(ctx, &types.GenesisState{Params: types.DefaultParams()})
	bondDenom, err := app.StakingKeeper.BondDenom(ctx)
	require.NoError(t, err)
	ms := keeper.MsgServer{Keeper: app.AllianceKeeper}
	_, err = ms.CreateAlliance(ctx, &types.MsgCreateAlliance{
		Authority: authtypes.NewModuleAddress(govtypes.ModuleName).String(), Denom: bondDenom,
		RewardWeight: math.LegacyNewDec(1), RewardWeightRange: types.RewardWeightRange{Min: math.LegacyZeroDec(), Max: math.LegacyNewDec(5)},
		TakeRate: math.LegacyZeroDec(), RewardChangeRate: math.LegacyOneDec(), RewardChangeInterval: 0,
	})
	if err != nil {
		t.Logf("REPLAY-NOT-CONFIRMED: CreateAlliance rejected the bond denom: %v", err)
		return
	}
	delegations, err := app.StakingKeeper.GetAllDelegations(ctx)
	require.NoError(t, err)
	valAddr, _ := sdk.ValAddressFromBech32(delegations[0].ValidatorAddress)
	val, err := app.AllianceKeeper.GetAllianceValidator(ctx, valAddr)
	require.NoError(t, err)
	addrs := test_helpers.AddTestAddrsIncremental(app, ctx, 1, sdk.NewCoins(sdk.NewCoin(bondDenom, math.NewInt(10_000_000))))
	_, err = app.AllianceKeeper.Delegate(ctx, addrs[0], val, sdk.NewCoin(bondDenom, math.NewInt(1_000_000)))
	require.NoError(t, err)
	ctx = ctx.WithBlockTime(start.Add(time.Minute)).WithBlockHeight(2)
	require.NoError(t, alliance.EndBlocker(ctx, app.AllianceKeeper))
	moduleAddr := app.AccountKeeper.GetModuleAddress(types.ModuleName)
	custody := app.BankKeeper.GetBalance(ctx, moduleAddr, bondDenom).Amount
	asset, _ := app.AllianceKeeper.GetAssetByDenom(ctx, bondDenom)
	t.Logf("after one end of block: custody %s%s, recorded staked total %s", custody, bondDenom, asset.TotalTokens)
	if custody.LT(asset.TotalTokens) {
		t.Fatalf("REPLAY-CONFIRMED: custody %s is below the staked total %s for the whitelisted bond denom", custody, asset.TotalTokens)
	}
	t.Logf("REPLAY-NOT-CONFIRMED")
}
