#!/bin/sh
# usage: tools/seed_matrix.sh [seed dirs...]
# One run of ALL contracts (gvc verify) per seeded change in a scratch worktree of /repo's HEAD; every failed obligation that is not
# a recorded known finding is attributed to the properties it is claimed under. Output: seeded/MATRIX.jsonl (one line per seed).
export GOFLAGS=-mod=mod GOPROXY=off GOSUMDB=off GOTOOLCHAIN=local
cd /verif
(cd engine && go build -o /var/tmp/gvc_matrix .) || exit 2
wt=/var/tmp/wt-seedmatrix
git -C /repo worktree remove --force $wt 2>/dev/null
git -C /repo worktree add -q --detach $wt HEAD || exit 2
seeds="$@"; [ -n "$seeds" ] || seeds=$(ls -d seeded/C*_[AB])
head=$(git -C /repo rev-parse --short HEAD)
# baseline: failures on the unchanged tree (the known findings)
(cd $wt && GVC_REPO=$wt /var/tmp/gvc_matrix verify 2>&1 | grep '^FAILED-OBLIGATION' | sort > /var/tmp/matrix_base.txt)
for s in $seeds; do
  s=${s%/}; id=$(basename $s)
  patch=/verif/$s/patch.diff; [ -f /verif/$s/patch_head.diff ] && patch=/verif/$s/patch_head.diff
  git -C $wt apply $patch || { echo "{\"seed\":\"$id\",\"status\":\"does-not-apply\"}" >> seeded/MATRIX.jsonl; continue; }
  out=$(cd $wt && GVC_REPO=$wt /var/tmp/gvc_matrix verify 2>&1)
  echo "$out" | grep '^FAILED-OBLIGATION' | sort > /var/tmp/matrix_cur.txt
  if echo "$out" | grep -q "load error\|does not compile\|package errors"; then status=load-error; else status=ran; fi
  python3 tools/matrix_line.py $id $head $status /var/tmp/matrix_base.txt /var/tmp/matrix_cur.txt >> seeded/MATRIX.jsonl
  tail -1 seeded/MATRIX.jsonl | cut -c1-300
  git -C $wt apply -R $patch
done
git -C /repo worktree remove --force $wt; rm -f /var/tmp/gvc_matrix /var/tmp/matrix_base.txt /var/tmp/matrix_cur.txt
