#!/bin/sh
# usage: tools/mutants.sh   -- every property-breaking edit under selftest/mutants must make at least one obligation fail (or become undecided)
export GOFLAGS=-mod=mod GOPROXY=off GOSUMDB=off GOTOOLCHAIN=local
cd /verif
(cd engine && go build -o /var/tmp/gvc_mut .) || exit 2
wt=/var/tmp/wt-mutants
git -C /repo worktree remove --force $wt 2>/dev/null
git -C /repo worktree add -q --detach $wt HEAD || exit 2
rc=0; rm -f /var/tmp/mut_base.txt
items="$@"; [ -n "$items" ] || items=$(ls -d selftest/mutants/*/)
for d in $items; do
  d=${d%/}/; case $d in selftest/*) ;; *) d=selftest/mutants/$d;; esac
  n=$(basename $d)
  base=/var/tmp/mut_base.txt; funcs=""
  if [ -f /verif/$d/funcs.txt ]; then
    # the item names the functions it touches: only their contracts are run (before and after the edit)
    funcs=$(cat /verif/$d/funcs.txt); base=/var/tmp/mut_base_i.txt
    (cd $wt && GVC_REPO=$wt /var/tmp/gvc_mut verify $funcs 2>&1 | grep '^FAILED-OBLIGATION' | sort > $base)
  fi
  if [ -z "$funcs" ] && [ ! -f /var/tmp/mut_base.txt ]; then
    (cd $wt && GVC_REPO=$wt /var/tmp/gvc_mut verify 2>&1 | grep '^FAILED-OBLIGATION' | sort > /var/tmp/mut_base.txt)
  fi
  git -C $wt apply /verif/$d/patch.diff || { echo "$n: does not apply"; rc=1; continue; }
  (cd $wt && GVC_REPO=$wt /var/tmp/gvc_mut verify $funcs 2>&1 | grep '^FAILED-OBLIGATION' | sort > /var/tmp/mut_cur.txt)
  new=$(comm -13 $base /var/tmp/mut_cur.txt | head -2 | cut -c19-160 | tr '\n' ';')
  if [ -n "$new" ]; then echo "$n: caught: $new"; else echo "$n: MISSED"; rc=1; fi
  git -C $wt apply -R /verif/$d/patch.diff
done
git -C /repo worktree remove --force $wt; rm -f /var/tmp/gvc_mut /var/tmp/mut_base.txt /var/tmp/mut_base_i.txt /var/tmp/mut_cur.txt
exit $rc
