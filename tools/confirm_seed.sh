#!/bin/sh
# usage: confirm_seed.sh <Cxx> <A|B>  -- confirms an independently written seeded defect in a scratch worktree of the base commit
id=$1; ab=$2; src=/var/tmp/seeds/$id/$ab; base=8eab403
export GOFLAGS=-mod=mod GOPROXY=off GOSUMDB=off GOTOOLCHAIN=local
wt=/var/tmp/wtc-$id-$ab; out=/var/tmp/seedconfirm; mkdir -p $out
res=$out/${id}_$ab.json
[ -f $src/patch.diff ] || { echo "{\"id\":\"$id\",\"ab\":\"$ab\",\"status\":\"missing\"}" > $res; exit 0; }
git -C /repo worktree remove --force $wt 2>/dev/null; git -C /repo worktree add -q --detach $wt $base || exit 2
cd $wt
demo_path=$(python3 -c "import json;print(json.load(open('$src/meta.json'))['demo_path'])")
demo_run=$(python3 -c "import json;print(json.load(open('$src/meta.json'))['demo_run'])")
cp $src/demo_test.go $demo_path
sh -c "$demo_run" > $out/${id}_$ab.demo_clean.log 2>&1; clean=$?
git apply $src/patch.diff; applies=$?
go build ./... > $out/${id}_$ab.build.log 2>&1; build=$?
sh -c "$demo_run" > $out/${id}_$ab.demo_patched.log 2>&1; patched=$?
rm -f $demo_path
go test -mod=mod -vet=off -count=1 -timeout 25m ./... > $out/${id}_$ab.suite.log 2>&1; suite=$?
applies_head=1; (cd /repo && git apply --check $src/patch.diff 2>/dev/null) && applies_head=0
echo "{\"id\":\"$id\",\"ab\":\"$ab\",\"applies_base\":$applies,\"build\":$build,\"demo_on_clean_exit\":$clean,\"demo_with_patch_exit\":$patched,\"suite_with_patch_exit\":$suite,\"applies_on_head\":$applies_head}" > $res
cd /; git -C /repo worktree remove --force $wt
cat $res
