#!/bin/sh
# usage: confirm_seed2.sh <Cxx> <A|B>  -- seventh round: confirms /var/tmp/wt7-<Cxx>/SEED/<A|B> in a fresh scratch worktree of /repo's HEAD
id=$1; ab=$2; src=/var/tmp/wt7-$id/SEED/$ab
export GOFLAGS=-mod=mod GOPROXY=off GOSUMDB=off GOTOOLCHAIN=local
wt=/var/tmp/wtc7-$id-$ab; out=/var/tmp/seedconfirm7; mkdir -p $out
res=$out/${id}_$ab.json
[ -f $src/patch.diff ] || { echo "{\"id\":\"$id\",\"ab\":\"$ab\",\"status\":\"missing\"}" > $res; cat $res; exit 0; }
git -C /repo worktree remove --force $wt 2>/dev/null; git -C /repo worktree add -q --detach $wt HEAD || exit 2
cd $wt
demo_path=$(python3 -c "import json;print(json.load(open('$src/meta.json'))['demo_path'])")
demo_run=$(python3 -c "import json;print(json.load(open('$src/meta.json'))['demo_run'])")
cp $src/demo_test.go $demo_path
sh -c "$demo_run" > $out/${id}_$ab.demo_clean.log 2>&1; clean=$?
git apply $src/patch.diff; applies=$?
go build ./... > $out/${id}_$ab.build.log 2>&1; build=$?
sh -c "$demo_run" > $out/${id}_$ab.demo_patched.log 2>&1; patched=$?
rm -f $demo_path
go test -mod=mod -vet=off -count=1 -timeout 25m ./... > $out/${id}_$ab.suite.log 2>&1; suite=$?
echo "{\"id\":\"$id\",\"ab\":\"$ab\",\"applies_head\":$applies,\"build\":$build,\"demo_on_clean_exit\":$clean,\"demo_with_patch_exit\":$patched,\"suite_with_patch_exit\":$suite}" > $res
cd /; git -C /repo worktree remove --force $wt
cat $res
