#!/bin/sh
# Re-run every claimed quick check on the current /repo tree (must be clean) and validate the evidence files.
cd /verif || exit 2
if ! git -C /repo diff --quiet; then echo "REFUSING: /repo has uncommitted changes"; exit 2; fi
export GOFLAGS=-mod=mod GOPROXY=off GOSUMDB=off GOTOOLCHAIN=local
(cd engine && go build -o ../bin/gvc .) || exit 2
rc=0
for id in $(python3 -c "import json;print(' '.join(c['property_id'] for c in json.load(open('MANIFEST.json'))['checks']))"); do
  out=$(./check $id ${1:-quick} 2>&1); st=$?
  echo "$out" | grep -E "^gvc check|VIOLATION" | cut -c1-220
  [ $st -ne 0 ] && rc=1
done
python3-vt - <<'PY'
import json,jsonschema,glob,sys
sch=json.load(open('/root/.vp/EVIDENCE.schema.json'))
man=json.load(open('/verif/MANIFEST.json'))
jsonschema.validate(man,json.load(open('/root/.vp/MANIFEST.schema.json')))
bad=0
for c in man['checks']:
    try:
        ev=json.load(open(c['evidence_file'])); jsonschema.validate(ev,sch)
        cov=ev['coverage']
        if ev['level']=='proof' and cov.get('obligations')!=cov.get('discharged'):
            print('EVIDENCE MISMATCH',c['property_id'],cov.get('obligations'),cov.get('discharged')); bad=1
    except Exception as e:
        print('EVIDENCE INVALID',c['property_id'],e); bad=1
print('evidence ok' if not bad else 'evidence PROBLEMS')
PY
exit $rc
