#!/bin/sh
# usage: tools/try_patch.sh <patch.diff> <gvc args...>   -- applies the patch to /repo, runs gvc, reverts exactly the patch
p=$(readlink -f "$1"); shift
cd /repo || exit 2
if ! git diff --quiet; then echo "REFUSING: /repo has uncommitted changes"; exit 2; fi
git apply "$p" || exit 2
"$@"
rc=$?
git apply -R "$p"
exit $rc
