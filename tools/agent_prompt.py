#!/usr/bin/env python3
"""Print the brief handed to a fresh mutant-writing sub-agent for one property (property text only, nothing from /verif)."""
import json, sys
pid = sys.argv[1]
wt = sys.argv[2] if len(sys.argv) > 2 else f"/tmp/wt-{pid}"
p = None
for l in open('/verif/properties.jsonl'):
    q = json.loads(l)
    if q['id'] == pid: p = q
assert p
print(f"""You are helping test a verification tool by writing a *seeded defect* for the Go repository terra-money/alliance (a Cosmos SDK module, x/alliance). Work ONLY inside your own scratch git worktree at {wt} (a checkout of the repository). Never touch /repo or /verif, never read /verif.

The semantic property that your change must BREAK:

  Title: {p['title']}
  Statement: {p['statement']}
  Quantified over: {p['quantifier']['text']}
  Relevant files (hints): {', '.join(p['anchors']['files'])}

Task: produce TWO independent, different changes (call them A and B) to the non-test Go source of the repository, each of which
  1. breaks the property above (on some input / history / configuration), while
  2. still compiling, and
  3. still passing the ENTIRE existing test suite unchanged (you may not edit or delete existing tests), and
  4. needs something specific to manifest — a particular multi-step sequence of operations, an unusual input or boundary value, a particular block-time schedule, two cooperating sites that each look fine alone, a particular packing of entries, etc. — NOT something ordinary use would expose at once. Realistic: the kind of slip a maintainer could make in a refactor or "optimisation" (changed comparison, off-by-one on a boundary, wrong variable of the same type, dropped or reordered call, stale copy written back, missing update of one of two paired records, inclusive/exclusive bound, rounding mode, missed trigger...). A and B should use different mechanisms and preferably touch different functions.
  Each change must be small (a few lines), confined to files under x/alliance/ or custom/ (non-test, non-generated .go files; do not touch *.pb.go, tests, testutil, docs).

For each change also write a demonstration: ONE new Go test file (e.g. x/alliance/keeper/tests/zz_seed_{pid.lower()}a_test.go, package tests_test, using the helpers existing tests there use such as createTestContext, test_helpers.AddTestAddrsIncremental, RegisterNewValidator, teststaking.NewValidator, app.AllianceKeeper...; look at existing tests for patterns) that FAILS with the change applied and PASSES on the unchanged code.

Environment (no network at all): before every go command run
  export GOFLAGS=-mod=mod GOPROXY=off GOSUMDB=off GOTOOLCHAIN=local
Full suite: (cd {wt} && go test -mod=mod -vet=off -count=1 -timeout 25m ./...)  — takes about 2-3 minutes; a single keeper test: go test -vet=off -count=1 -run TestName ./x/alliance/keeper/tests/ (about 15-60 s, link-dominated). Use -vet=off always.

Deliverables — create directory {wt}/SEED/ containing:
  A/patch.diff   (git diff of the source change ONLY, relative to the repository root, appliable with `git apply`; must NOT include the demo test)
  A/demo_test.go (the demonstration test file, plus in meta.json the path where it must be placed)
  A/meta.json    {{"property": "{pid}", "summary": "...what was changed...", "needs": "...what it takes to manifest...", "demo_path": "x/alliance/.../zz_seed_..._test.go", "demo_run": "go test -vet=off -count=1 -run TestXxx ./x/alliance/keeper/tests/", "why_existing_tests_pass": "..."}}
  B/...          same for the second change
Before finishing, VERIFY for each of A and B, and say so in your final message with the commands you ran:
  (i) with the patch applied: `go build ./...` succeeds and the full existing suite passes; the demo test fails;
  (ii) with the patch reverted (`git checkout -- .` keeping SEED/ and the demo test): the demo test passes.
Finally leave the worktree with the source reverted (git checkout -- . ; remove the demo test files from the tree; keep only SEED/). If you cannot find a second change that satisfies everything, deliver only A and say so. Do not weaken the requirement that the full existing suite passes.""")
