import sys,json
seed,head,status,basef,curf=sys.argv[1:6]
def rd(f):
    out={}
    for l in open(f):
        p=l.split()
        if len(p)>=3: out[p[1]]=p[2].replace('props=','').split(',')
    return out
base,cur=rd(basef),rd(curf)
new={k:v for k,v in cur.items() if k not in base}
props=sorted({p for v in new.values() for p in v if p})
print(json.dumps({"seed":seed,"repo":head,"status":status,"caught_by_properties":props,"new_failed_obligations":sorted(new)[:12],"n_new":len(new)}))
