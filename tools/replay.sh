#!/bin/sh
# usage: tools/replay.sh <test file under /verif/replay_tests> <TestName> [pkgdir]   -- runs it against /repo via -overlay
export GOFLAGS=-mod=mod GOPROXY=off GOSUMDB=off GOTOOLCHAIN=local
f=$(readlink -f "$1"); name=$2; pkg=${3:-x/alliance/keeper/tests}
ov=$(mktemp /var/tmp/ov.XXXXXX.json)
printf '{"Replace": {"/repo/%s/%s": "%s"}}\n' "$pkg" "$(basename "$f")" "$f" > "$ov"
cd /repo && go test -overlay "$ov" -vet=off -count=1 -timeout 300s -run "^${name}\$" -v "./$pkg/" 2>&1 | tail -25
rc=$?
rm -f "$ov"
exit $rc
