#!/bin/sh
# usage: tools/store_seed7.sh <Cxx>  -- seventh round: copies /var/tmp/wt7-<Cxx>/SEED/A into seeded/<Cxx>_G, confirms it (tools/confirm_seed7.sh),
# runs the registered check of its own property against it in a scratch worktree (tools/run_seeds.sh) and writes meta.json from the agent's meta + my confirmation.
id=$1; src=/var/tmp/wt7-$id/SEED/A; dst=/verif/seeded/${id}_G
[ -f $src/patch.diff ] || { echo "no deliverable for $id"; exit 1; }
cd /verif; mkdir -p $dst; cp $src/patch.diff $dst/patch.diff; cp $src/demo_test.go $dst/demo_test.go.txt; cp $src/meta.json /var/tmp/${id}_agent_meta.json
conf=$(tools/confirm_seed7.sh $id A 2>&1 | tail -1); echo "$conf"
tools/run_seeds.sh seeded/${id}_G 2>&1 | tail -3
python3 - "$id" "$conf" <<'PY'
import json,sys
pid,conf=sys.argv[1],json.loads(sys.argv[2])
a=json.load(open('/var/tmp/%s_agent_meta.json'%pid))
res=[json.loads(l) for l in open('/verif/seeded/RESULTS.jsonl') if '"%s_G"'%pid in l]
ok = conf.get('applies_head')==0 and conf.get('build')==0 and conf.get('demo_on_clean_exit')==0 and conf.get('demo_with_patch_exit')!=0 and conf.get('suite_with_patch_exit')==0
d={"property":pid,"round":7,
 "written_by":"fresh sub-agent (seventh round, 2026-09-28) given only the property text and its own scratch worktree of /repo HEAD under /var/tmp; nothing from /verif; one change within a short time budget",
 "summary":a.get('summary',''),"needs_to_manifest":a.get('needs',''),"why_existing_tests_pass":a.get('why_existing_tests_pass',''),
 "demonstration":{"file":"demo_test.go.txt","install_as":a.get('demo_path',''),"run":a.get('demo_run','')},
 "confirmed_by_me":{"how":"tools/confirm_seed7.sh %s A: fresh worktree of /repo HEAD under /var/tmp; demo on the clean tree; git apply patch.diff; go build ./...; demo again; full suite with the patch; worktree removed"%pid,
   "raw":conf,"all_conditions_met":ok},
 "check_results":[{"check":r.get('check'),"exit":r.get('exit'),"violations":r.get('violations'),"first":r.get('first','')[:400]} for r in res]}
json.dump(d,open('/verif/seeded/%s_G/meta.json'%pid,'w'),indent=1)
print('confirmed' if ok else 'NOT CONFIRMED', [ (r.get('check'),r.get('exit')) for r in res])
PY
rm -f /var/tmp/${id}_agent_meta.json
