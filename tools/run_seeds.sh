#!/bin/sh
# usage: tools/run_seeds.sh [seed dirs...]
# Runs the claimed checks against each seeded change in a scratch worktree of /repo's HEAD (never in /repo itself):
# apply patch -> gvc check <props> with GVC_REPO=<worktree> -> revert. One JSON line per seed x check goes to
# seeded/RESULTS.jsonl. The worktree and scratch verif dir live under /var/tmp and are removed at the end.
export GOFLAGS=-mod=mod GOPROXY=off GOSUMDB=off GOTOOLCHAIN=local
cd /verif
(cd engine && go build -o /var/tmp/gvc_sweep .) || exit 2
wt=/var/tmp/wt-seedsweep; sv=/var/tmp/seedsweep-verif
git -C /repo worktree remove --force $wt 2>/dev/null
git -C /repo worktree add -q --detach $wt HEAD || exit 2
rm -rf $sv; mkdir -p $sv/evidence; cp known_findings.json $sv/
seeds="$@"; [ -n "$seeds" ] || seeds=$(ls -d seeded/C*_[AB])
head=$(git -C /repo rev-parse --short HEAD); eng=$(git -C /verif rev-parse --short HEAD)
for s in $seeds; do
  s=${s%/}; id=$(basename $s); prop=${id%_*}
  patch=/verif/$s/patch.diff; [ -f /verif/$s/patch_head.diff ] && patch=/verif/$s/patch_head.diff
  checks=$(python3 tools/seed_checks.py $prop)
  git -C $wt apply $patch || { echo "{\"seed\":\"$id\",\"status\":\"does-not-apply\"}" >> seeded/RESULTS.jsonl; continue; }
  for c in $checks; do
    out=$(cd $wt && GVC_REPO=$wt GVC_VERIF=$sv /var/tmp/gvc_sweep check $c --tier ${TIER:-quick} 2>&1); rc=$?
    obl=$(echo "$out" | grep -c '^VIOLATION')
    first=$(echo "$out" | grep '^VIOLATION' | head -3 | sed 's/.*obligation=//' | cut -c1-200 | tr '\n' '|' | sed 's/"/\\"/g')
    echo "{\"seed\":\"$id\",\"check\":\"$c\",\"exit\":$rc,\"violations\":$obl,\"repo\":\"$head\",\"verif\":\"$eng\",\"first\":\"$first\"}" >> seeded/RESULTS.jsonl
    echo "$id $c exit=$rc violations=$obl"
  done
  git -C $wt apply -R $patch
done
git -C /repo worktree remove --force $wt; rm -rf $sv /var/tmp/gvc_sweep
