#!/bin/sh
# usage: tools/run_seeds.sh [seed dirs...]   -- applies each seeded change to /repo, runs the listed checks, reverts, records the outcome
# result lines go to seeded/RESULTS.jsonl (one per seed x check). Never run concurrently with other checks on /repo.
cd /verif
[ -z "$(git -C /repo status --porcelain)" ] || { echo "/repo is dirty"; exit 2; }
seeds="$@"; [ -n "$seeds" ] || seeds=$(ls -d seeded/C*_[AB])
for s in $seeds; do
  s=${s%/}; id=$(basename $s); prop=${id%_*}
  patch=$s/patch.diff; [ -f $s/patch_head.diff ] && patch=$s/patch_head.diff
  checks=$(python3 tools/seed_checks.py $prop)
  git -C /repo apply $patch || { echo "{\"seed\":\"$id\",\"status\":\"does-not-apply\"}" >> seeded/RESULTS.jsonl; continue; }
  for c in $checks; do
    out=$(./check $c 2>&1); rc=$?
    obl=$(echo "$out" | grep -c '^VIOLATION')
    first=$(echo "$out" | grep '^VIOLATION' | head -3 | sed 's/.*obligation=//' | cut -c1-160 | tr '\n' '|' | sed 's/"/\\"/g')
    echo "{\"seed\":\"$id\",\"check\":\"$c\",\"exit\":$rc,\"violations\":$obl,\"first\":\"$first\"}" >> seeded/RESULTS.jsonl
    echo "$id $c exit=$rc violations=$obl"
  done
  git -C /repo checkout -- . ; git -C /repo clean -fdq x/ 2>/dev/null
done
rm -rf replays
