import sys,json
claimed=[c['property_id'] for c in json.load(open('/verif/MANIFEST.json'))['checks']]
extra={'C11':['C01','C10','C17'],'C12':['C13','C08','C07','C17'],'C17':['C17','C10'],'C10':['C10','C17'],'C08':['C08','C07'],'C07':['C07','C08','C01'],'C05':['C05','C04'],'C04':['C04','C05'],'C03':['C03','C01'],'C01':['C01','C03']}
p=sys.argv[1]
out=[]
if p in claimed: out.append(p)
for x in extra.get(p,[]):
    if x in claimed and x not in out: out.append(x)
print(' '.join(out))
