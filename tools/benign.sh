#!/bin/sh
# usage: tools/benign.sh   -- every harmless edit under selftest/benign must leave ALL contracts discharged (no new failed obligation)
export GOFLAGS=-mod=mod GOPROXY=off GOSUMDB=off GOTOOLCHAIN=local
cd /verif
(cd engine && go build -o /var/tmp/gvc_benign .) || exit 2
wt=/var/tmp/wt-benign
git -C /repo worktree remove --force $wt 2>/dev/null
git -C /repo worktree add -q --detach $wt HEAD || exit 2
rc=0; rm -f /var/tmp/benign_base.txt
items="$@"; [ -n "$items" ] || items=$(ls -d selftest/benign/*/)
for d in $items; do
  d=${d%/}/; case $d in selftest/*) ;; *) d=selftest/benign/$d;; esac
  n=$(basename $d)
  base=/var/tmp/benign_base.txt; funcs=""
  if [ -f /verif/$d/funcs.txt ]; then
    # the item names the functions it touches: only their contracts are run (before and after the edit)
    funcs=$(cat /verif/$d/funcs.txt); base=/var/tmp/benign_base_i.txt
    (cd $wt && GVC_REPO=$wt /var/tmp/gvc_benign verify $funcs 2>&1 | grep '^FAILED-OBLIGATION' | sort > $base)
  fi
  if [ -z "$funcs" ] && [ ! -f /var/tmp/benign_base.txt ]; then
    (cd $wt && GVC_REPO=$wt /var/tmp/gvc_benign verify 2>&1 | grep '^FAILED-OBLIGATION' | sort > /var/tmp/benign_base.txt)
  fi
  git -C $wt apply /verif/$d/patch.diff || { echo "$n: does not apply"; rc=1; continue; }
  (cd $wt && GVC_REPO=$wt /var/tmp/gvc_benign verify $funcs 2>&1 | grep '^FAILED-OBLIGATION' | sort > /var/tmp/benign_cur.txt)
  new=$(comm -13 $base /var/tmp/benign_cur.txt)
  if [ -n "$new" ]; then echo "$n: FALSE ALARM"; echo "$new" | head -5; rc=1; else echo "$n: quiet"; fi
  git -C $wt apply -R /verif/$d/patch.diff
done
git -C /repo worktree remove --force $wt; rm -f /var/tmp/gvc_benign /var/tmp/benign_base.txt /var/tmp/benign_base_i.txt /var/tmp/benign_cur.txt
exit $rc
