#!/bin/sh
# usage: tools/benign.sh   -- every harmless edit under selftest/benign must leave ALL contracts discharged (no new failed obligation)
export GOFLAGS=-mod=mod GOPROXY=off GOSUMDB=off GOTOOLCHAIN=local
cd /verif
(cd engine && go build -o /var/tmp/gvc_benign .) || exit 2
wt=/var/tmp/wt-benign
git -C /repo worktree remove --force $wt 2>/dev/null
git -C /repo worktree add -q --detach $wt HEAD || exit 2
(cd $wt && GVC_REPO=$wt /var/tmp/gvc_benign verify 2>&1 | grep '^FAILED-OBLIGATION' | sort > /var/tmp/benign_base.txt)
rc=0
for d in selftest/benign/*/; do
  n=$(basename $d)
  git -C $wt apply /verif/$d/patch.diff || { echo "$n: does not apply"; rc=1; continue; }
  (cd $wt && GVC_REPO=$wt /var/tmp/gvc_benign verify 2>&1 | grep '^FAILED-OBLIGATION' | sort > /var/tmp/benign_cur.txt)
  new=$(comm -13 /var/tmp/benign_base.txt /var/tmp/benign_cur.txt)
  if [ -n "$new" ]; then echo "$n: FALSE ALARM"; echo "$new" | head -5; rc=1; else echo "$n: quiet"; fi
  git -C $wt apply -R /verif/$d/patch.diff
done
git -C /repo worktree remove --force $wt; rm -f /var/tmp/gvc_benign /var/tmp/benign_base.txt /var/tmp/benign_cur.txt
exit $rc
