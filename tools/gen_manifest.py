#!/usr/bin/env python3
"""Generate /verif/MANIFEST.json from tools/claims.json (one entry per claimed property) + not_applicable reasons."""
import json, subprocess
claims = json.load(open('/verif/tools/claims.json'))
hooks_commits = subprocess.run(['git','-C','/repo','log','--format=%H','--grep=^verif:'],capture_output=True,text=True).stdout.split()
man = {
 "version": 1,
 "setup_cmd": "cd /verif/engine && GOFLAGS=-mod=mod GOPROXY=off GOSUMDB=off GOTOOLCHAIN=local go build -o ../bin/gvc .",
 "hooks": {
  "guard": "verif",
  "enable": "go/packages load of /repo with BuildFlags -tags=verif (contract comment files zz_verif_contracts.go are compiled only with the tag; they contain no declarations)",
  "baseline_off_cmd": "cd /repo && GOFLAGS=-mod=mod GOPROXY=off GOSUMDB=off GOTOOLCHAIN=local go test -mod=mod -json -vet=off -count=1 -timeout 25m ./...",
  "source_commits": hooks_commits,
  "add_only": True
 },
 "engines": [{"name": "gvc", "path": "/verif/engine", "serves_properties": [c["id"] for c in claims["claims"]],
   "kind_free_text": "verification-condition generator over go/ssa of the real /repo source (contracts in //@ comment files behind tag verif), obligations discharged by z3 5.1.0 / z3 4.8.12 / cvc5 1.0"}],
 "checks": [],
 "notes": claims.get("notes",""),
 "not_applicable": claims["not_applicable"],
}
for c in claims["claims"]:
    man["checks"].append({
      "property_id": c["id"],
      "quick_cmd": f"./check {c['id']} quick",
      "thorough_cmd": f"./check {c['id']} thorough",
      "evidence_file": f"/verif/evidence/{c['id']}.json",
      "replay_cmd_template": "cat {path}",
      "engine": "gvc",
      "level_claimed": {"category": c.get("category","proof"), "text": c["text"], "design_ref": c.get("design_ref","DESIGN.md section 7")},
      "level_note": c["note"],
      "technique": c.get("technique","contract-based deductive verification: VCs generated over go/ssa of the real code from //@ contracts, discharged by SMT (z3/cvc5)"),
    })
json.dump(man, open('/verif/MANIFEST.json','w'), indent=1)
print("claims:", [c["id"] for c in claims["claims"]], "n/a:", [n["property_id"] for n in man["not_applicable"]])
