package tests_test

// Bounded stand-in for the COMPOSITION that C18 states and the contracts of ExportGenesis / InitGenesis do not decide:
// after a seeded random history the module state is exported, imported into an emptied module store on a branch that shares
// bank/staking state, and the same continuation (user operations, slashes, time jumps, end-of-block completion) is run in
// lock-step on the original and on the re-imported branch. Facts:
//   second_export_identical        - export(import(export(S))) == export(S)
//   continuation_results_identical - every continuation step returns the same error / panics alike on both branches
//   continuation_states_identical  - after every continuation step the two exports and the module's balances are equal
// Facts carry the regime "@merged_redelegation_sources" when, at export time, some redelegation record is indexed under more than one
// source validator (the same delegator redelegated from two sources to one destination in one block: the record key has no source).
// This is a bounded check, never counted as proved. Run by `gvc check C18 --tier thorough`.

import (
	"fmt"
	"math/rand"
	"os"
	"reflect"
	"strconv"
	"testing"
	"time"

	"cosmossdk.io/math"
	sdk "github.com/cosmos/cosmos-sdk/types"
	teststaking "github.com/cosmos/cosmos-sdk/x/staking/testutil"
	"github.com/stretchr/testify/require"

	test_helpers "github.com/terra-money/alliance/app"
	"github.com/terra-money/alliance/x/alliance/types"
)

func TestBoundedGenesisRoundTrip(t *testing.T) {
	failed := map[string]bool{}
	regime := "" // "@merged_redelegation_sources": some redelegation record is indexed under more than one source validator
	fact := func(name, format string, args ...interface{}) {
		name += regime
		if !failed[name] {
			fmt.Printf("BOUNDED-FACT-FAILED %s :: %s\n", name, fmt.Sprintf(format, args...))
		}
		failed[name] = true
	}
	seed := int64(1)
	if s, err := strconv.Atoi(os.Getenv("VERIF_SEED")); err == nil {
		seed = int64(s)
	}
	amounts := []math.Int{math.NewInt(1), math.NewInt(7), math.NewInt(1_000_000), math.NewInt(1_000_000_000_007), math.NewInt(333_333)}
	steps := 0
	for hist := 0; hist < 16; hist++ {
		rng := rand.New(rand.NewSource(seed*104729 + int64(hist)))
		app, ctx := createTestContext(t)
		start := time.Now().UTC()
		ctx = ctx.WithBlockTime(start).WithBlockHeight(1)
		app.AllianceKeeper.InitGenesis(ctx, &types.GenesisState{
			Params: types.DefaultParams(),
			Assets: []types.AllianceAsset{
				types.NewAllianceAsset(AllianceDenom, math.LegacyNewDec(2), math.LegacyNewDec(0), math.LegacyNewDec(100), math.LegacyNewDec(0), start),
				types.NewAllianceAsset(AllianceDenomTwo, math.LegacyNewDec(1), math.LegacyNewDec(0), math.LegacyNewDec(100), math.LegacyNewDec(0), start.Add(time.Hour)),
			},
		})
		denoms := []string{AllianceDenom, AllianceDenomTwo}
		nUsers, nVals := 3, 3
		addrs := test_helpers.AddTestAddrsIncremental(app, ctx, nUsers+nVals, sdk.NewCoins(sdk.NewCoin(AllianceDenom, math.NewInt(1_000_000_000_000_000)), sdk.NewCoin(AllianceDenomTwo, math.NewInt(1_000_000_000_000_000))))
		pks := test_helpers.CreateTestPubKeys(nVals)
		var vals []sdk.ValAddress
		for i := 0; i < nVals; i++ {
			va := sdk.ValAddress(addrs[i])
			test_helpers.RegisterNewValidator(t, app, ctx, teststaking.NewValidator(t, va, pks[i]))
			vals = append(vals, va)
		}
		users := addrs[nVals:]
		moduleAddr := app.AccountKeeper.GetModuleAddress(types.ModuleName)
		unbondingTime, err := app.StakingKeeper.UnbondingTime(ctx)
		require.NoError(t, err)
		getVal := func(c sdk.Context, va sdk.ValAddress) (types.AllianceValidator, error) {
			return app.AllianceKeeper.GetAllianceValidator(c, va)
		}
		type opT struct {
			kind      int
			ui, vi, to, di int
			amt       math.Int
			frac      math.LegacyDec
			jump      time.Duration
		}
		gen := func() opT {
			o := opT{kind: rng.Intn(12), ui: rng.Intn(nUsers), vi: rng.Intn(nVals), di: rng.Intn(2), amt: amounts[rng.Intn(len(amounts))]}
			o.to = (o.vi + 1 + rng.Intn(nVals-1)) % nVals
			o.frac = []math.LegacyDec{math.LegacyNewDecWithPrec(1, 4), math.LegacyNewDecWithPrec(5, 2), math.LegacyNewDecWithPrec(5, 1)}[rng.Intn(3)]
			switch rng.Intn(6) {
			case 0:
				o.jump = unbondingTime + time.Second
			case 1, 2:
				o.jump = 0 // same block time: several entries share a bucket / merge into one redelegation record
			default:
				o.jump = time.Minute
			}
			return o
		}
		apply := func(c sdk.Context, o opT) (res string) {
			defer func() {
				if r := recover(); r != nil {
					res = fmt.Sprintf("panic: %v", r)
				}
			}()
			d := denoms[o.di]
			var err error
			switch {
			case o.kind < 4:
				v, e := getVal(c, vals[o.vi])
				if e != nil {
					return "err: " + e.Error()
				}
				_, err = app.AllianceKeeper.Delegate(c, users[o.ui], v, sdk.NewCoin(d, o.amt))
			case o.kind < 6:
				v, e := getVal(c, vals[o.vi])
				if e != nil {
					return "err: " + e.Error()
				}
				_, err = app.AllianceKeeper.Undelegate(c, users[o.ui], v, sdk.NewCoin(d, o.amt))
			case o.kind < 8:
				v, e := getVal(c, vals[o.vi])
				w, e2 := getVal(c, vals[o.to])
				if e != nil || e2 != nil {
					return "err: validator"
				}
				_, err = app.AllianceKeeper.Redelegate(c, users[o.ui], v, w, sdk.NewCoin(d, o.amt))
			case o.kind < 9:
				err = app.AllianceKeeper.SlashValidator(c, vals[o.vi], o.frac)
			case o.kind < 10:
				n := app.AllianceKeeper.CompleteRedelegations(c)
				_ = n
				err = app.AllianceKeeper.CompleteUnbondings(c)
			case o.kind < 11:
				v, e := getVal(c, vals[o.vi])
				if e != nil {
					return "err: " + e.Error()
				}
				var coins sdk.Coins
				coins, err = app.AllianceKeeper.ClaimDelegationRewards(c, users[o.ui], v, d)
				if err == nil {
					return "ok: " + coins.String()
				}
			default:
				unb, e := app.AllianceKeeper.GetUnbondingsByDelegator(c, users[o.ui])
				if e != nil {
					return "err: " + e.Error()
				}
				return fmt.Sprintf("ok: %v", unb)
			}
			if err != nil {
				return "err: " + err.Error()
			}
			return "ok"
		}
		now := start
		// directed prelude (every fourth history): one delegator redelegates from TWO sources to the same destination in the same block
		var forced []opT
		if hist%4 == 0 {
			for _, o := range []opT{
				{kind: 0, ui: 0, vi: 0, di: 0, amt: math.NewInt(1_000_000)}, {kind: 0, ui: 0, vi: 1, di: 0, amt: math.NewInt(1_000_000)},
				{kind: 6, ui: 0, vi: 0, to: 2, di: 0, amt: math.NewInt(300_000)}, {kind: 6, ui: 0, vi: 1, to: 2, di: 0, amt: math.NewInt(200_000)},
			} {
				cc, write := ctx.CacheContext()
				if r := apply(cc, o); len(r) >= 2 && r[:2] == "ok" {
					write()
				}
			}
			forced = []opT{{kind: 8, vi: 1, frac: math.LegacyNewDecWithPrec(5, 1), jump: time.Minute}}
		}
		// phase 1: history on the original
		for step := 0; step < 14; step++ {
			o := gen()
			now = now.Add(o.jump)
			ctx = ctx.WithBlockHeight(ctx.BlockHeight() + 1).WithBlockTime(now)
			cc, write := ctx.CacheContext()
			if r := apply(cc, o); len(r) >= 2 && r[:2] == "ok" {
				write()
			}
		}
		// block boundary: export, import on a branch with an emptied module store
		exp1 := app.AllianceKeeper.ExportGenesis(ctx)
		regime = ""
		{
			st := ctx.KVStore(app.GetKey(types.StoreKey))
			n := 0
			ix := st.Iterator(types.RedelegationByValidatorIndexKey, []byte{types.RedelegationByValidatorIndexKey[0] + 1})
			for ; ix.Valid(); ix.Next() {
				n++
			}
			ix.Close()
			if n > len(exp1.Redelegations) {
				regime = "@merged_redelegation_sources"
			}
		}
		orig, _ := ctx.CacheContext()
		reimp, _ := ctx.CacheContext()
		store := reimp.KVStore(app.GetKey(types.StoreKey))
		var keys [][]byte
		it := store.Iterator(nil, nil)
		for ; it.Valid(); it.Next() {
			keys = append(keys, append([]byte{}, it.Key()...))
		}
		it.Close()
		for _, k := range keys {
			store.Delete(k)
		}
		var impPanic interface{}
		func() {
			defer func() { impPanic = recover() }()
			app.AllianceKeeper.InitGenesis(reimp, exp1)
		}()
		if impPanic != nil {
			fact("import_of_an_export_succeeds", "history %d: InitGenesis(ExportGenesis(S)) panics: %v", hist, impPanic)
			continue
		}
		exp2 := app.AllianceKeeper.ExportGenesis(reimp)
		if !reflect.DeepEqual(exp1, exp2) {
			fact("second_export_identical", "history %d: export(import(export(S))) differs from export(S): delegations %d/%d redelegations %d/%d undelegations %d/%d validators %d/%d snapshots %d/%d", hist,
				len(exp1.Delegations), len(exp2.Delegations), len(exp1.Redelegations), len(exp2.Redelegations), len(exp1.Undelegations), len(exp2.Undelegations),
				len(exp1.ValidatorInfos), len(exp2.ValidatorInfos), len(exp1.RewardWeightChangeSnaphots), len(exp2.RewardWeightChangeSnaphots))
		}
		// phase 2: the same continuation on both branches
		for step := 0; step < 12; step++ {
			steps++
			o := gen()
			if step < len(forced) {
				o = forced[step]
			}
			now = now.Add(o.jump)
			h := orig.BlockHeight() + 1
			orig = orig.WithBlockHeight(h).WithBlockTime(now)
			reimp = reimp.WithBlockHeight(h).WithBlockTime(now)
			ca, wa := orig.CacheContext()
			cb, wb := reimp.CacheContext()
			ra, rb := apply(ca, o), apply(cb, o)
			if ra != rb {
				fact("continuation_results_identical", "history %d continuation step %d (op kind %d user %d val %d->%d %s%s frac %s at +%s): original %q, re-imported %q", hist, step, o.kind, o.ui, o.vi, o.to, o.amt, denoms[o.di], o.frac, now.Sub(start), ra, rb)
			}
			if len(ra) >= 2 && ra[:2] == "ok" {
				wa()
			}
			if len(rb) >= 2 && rb[:2] == "ok" {
				wb()
			}
			ea, eb := app.AllianceKeeper.ExportGenesis(orig), app.AllianceKeeper.ExportGenesis(reimp)
			ba, bb := app.BankKeeper.GetAllBalances(orig, moduleAddr), app.BankKeeper.GetAllBalances(reimp, moduleAddr)
			if !reflect.DeepEqual(ea, eb) || !ba.Equal(bb) {
				fact("continuation_states_identical", "history %d continuation step %d (op kind %d user %d val %d->%d %s%s frac %s): exports or module balances differ (balances %s / %s; redelegations %d/%d undelegations %d/%d delegations %d/%d)", hist, step, o.kind, o.ui, o.vi, o.to, o.amt, denoms[o.di], o.frac, ba, bb,
					len(ea.Redelegations), len(eb.Redelegations), len(ea.Undelegations), len(eb.Undelegations), len(ea.Delegations), len(eb.Delegations))
				break
			}
		}
	}
	fmt.Printf("BOUNDED-SUMMARY scenarios=%d seed=%d failed_facts=%d\n", steps, seed, len(failed))
	if len(failed) > 0 {
		t.Fail()
	}
}
