package tests_test

// Bounded stand-in for the NUMERIC statements of C10 / C11 that the contracts of RebalanceBondTokenWeights do not decide (they need
// sums over validators and the exchange-rate arithmetic of x/staking): seeded random histories mix alliance Delegate / Undelegate /
// Redelegate, native delegations and undelegations, reward-weight changes, jailing/unjailing and slashes; every step ends with the
// (fees in the staking denom are distributed to the bonded validators now and then)
// staking validator-set update and the module's real EndBlocker (run until the rebalance flag is quiescent, at most 3 times). Facts:
//   bonded_validators_at_target        - every bonded validator's alliance-minted stake = sum over started assets of
//                                        weight x native bonded x (validator's share of the asset's BONDED validator shares), within 2 base units
//   unbonded_validators_not_adjusted   - the module's stake on a validator that is not bonded does not change in the rebalance
//   module_holds_no_staking_denom      - after the end of the block the module account holds no staking denom (C11)
//   net_supply_unchanged               - staking-denom supply minus the module's own stake (on every validator) and liquid balance is changed neither by
//                                        an alliance operation nor by the end of a block, within 3 base units per bonded validator (C11)
//   no_user_receives_staking_denom     - users who never held the staking denom hold at most the fees that were distributed as rewards (C11)
// This is a bounded check, never counted as proved. Run by `gvc check C10|C11 --tier thorough`.

import (
	"fmt"
	"math/rand"
	"os"
	"strconv"
	"testing"
	"time"

	"cosmossdk.io/math"
	sdk "github.com/cosmos/cosmos-sdk/types"
	abcitypes "github.com/cometbft/cometbft/abci/types"
	authtypes "github.com/cosmos/cosmos-sdk/x/auth/types"
	minttypes "github.com/cosmos/cosmos-sdk/x/mint/types"
	stakingtypes "github.com/cosmos/cosmos-sdk/x/staking/types"
	teststaking "github.com/cosmos/cosmos-sdk/x/staking/testutil"
	"github.com/stretchr/testify/require"

	test_helpers "github.com/terra-money/alliance/app"
	"github.com/terra-money/alliance/x/alliance"
	"github.com/terra-money/alliance/x/alliance/types"
)

func TestBoundedRebalance(t *testing.T) {
	failed := map[string]bool{}
	fact := func(name, format string, args ...interface{}) {
		if !failed[name] {
			fmt.Printf("BOUNDED-FACT-FAILED %s :: %s\n", name, fmt.Sprintf(format, args...))
		}
		failed[name] = true
	}
	seed := int64(1)
	if s, err := strconv.Atoi(os.Getenv("VERIF_SEED")); err == nil {
		seed = int64(s)
	}
	steps := 0
	for hist := 0; hist < 10; hist++ {
		rng := rand.New(rand.NewSource(seed*15485863 + int64(hist)))
		app, ctx := createTestContext(t)
		bondDenom, err := app.StakingKeeper.BondDenom(ctx)
		require.NoError(t, err)
		start := time.Now().UTC()
		ctx = ctx.WithBlockTime(start).WithBlockHeight(1)
		weights := []math.LegacyDec{math.LegacyMustNewDecFromStr("0.1"), math.LegacyMustNewDecFromStr("0.5"), math.LegacyNewDec(2)}
		app.AllianceKeeper.InitGenesis(ctx, &types.GenesisState{
			Params: types.DefaultParams(),
			Assets: []types.AllianceAsset{
				types.NewAllianceAsset(AllianceDenom, weights[rng.Intn(3)], math.LegacyNewDec(0), math.LegacyNewDec(100), math.LegacyNewDec(0), start),
				types.NewAllianceAsset(AllianceDenomTwo, weights[rng.Intn(3)], math.LegacyNewDec(0), math.LegacyNewDec(100), math.LegacyNewDec(0), start.Add(5*time.Minute)),
			},
		})
		denoms := []string{AllianceDenom, AllianceDenomTwo}
		distParams, err := app.DistrKeeper.Params.Get(ctx)
		require.NoError(t, err)
		distParams.CommunityTax = math.LegacyZeroDec()
		require.NoError(t, app.DistrKeeper.Params.Set(ctx, distParams))
		nUsers := 3
		addrs := test_helpers.AddTestAddrsIncremental(app, ctx, 2+nUsers+1, sdk.NewCoins(sdk.NewCoin(AllianceDenom, math.NewInt(1_000_000_000_000)), sdk.NewCoin(AllianceDenomTwo, math.NewInt(1_000_000_000_000))))
		native := addrs[2+nUsers] // the only account funded with the staking denom
		require.NoError(t, app.BankKeeper.MintCoins(ctx, types.ModuleName, sdk.NewCoins(sdk.NewCoin(bondDenom, math.NewInt(100_000_000)))))
		require.NoError(t, app.BankKeeper.SendCoinsFromModuleToAccount(ctx, types.ModuleName, native, sdk.NewCoins(sdk.NewCoin(bondDenom, math.NewInt(100_000_000)))))
		pks := test_helpers.CreateTestPubKeys(2)
		dels, err := app.StakingKeeper.GetAllDelegations(ctx)
		require.NoError(t, err)
		va0, err := sdk.ValAddressFromBech32(dels[0].ValidatorAddress)
		require.NoError(t, err)
		vals := []sdk.ValAddress{va0}
		for i := 0; i < 2; i++ {
			va := sdk.ValAddress(addrs[i])
			test_helpers.RegisterNewValidator(t, app, ctx, teststaking.NewValidator(t, va, pks[i]))
			vals = append(vals, va)
		}
		users := addrs[2 : 2+nUsers]
		moduleAddr := app.AccountKeeper.GetModuleAddress(types.ModuleName)
		for _, va := range vals { // every validator gets some native stake so that it has an exchange rate
			sv, err := app.StakingKeeper.GetValidator(ctx, va)
			require.NoError(t, err)
			_, err = app.StakingKeeper.Delegate(ctx, native, math.NewInt(1_000_000+int64(rng.Intn(5_000_000))), stakingtypes.Unbonded, sv, true)
			require.NoError(t, err)
		}
		allianceStake := func(c sdk.Context, va sdk.ValAddress) math.LegacyDec {
			d, err := app.StakingKeeper.GetDelegation(c, moduleAddr, va)
			if err != nil {
				return math.LegacyZeroDec()
			}
			sv, _ := app.StakingKeeper.GetValidator(c, va)
			return sv.TokensFromShares(d.Shares)
		}
		endBlock := func(c sdk.Context) error {
			if _, err := app.StakingKeeper.ApplyAndReturnValidatorSetUpdates(c); err != nil {
				return err
			}
			for i := 0; i < 3; i++ {
				if err := alliance.EndBlocker(c, app.AllianceKeeper); err != nil {
					return err
				}
				if _, err := app.StakingKeeper.ApplyAndReturnValidatorSetUpdates(c); err != nil {
					return err
				}
			}
			return nil
		}
		netSupply := func(c sdk.Context) math.Int { // supply minus ALL of the module's own stake (bonded or not) minus what it still holds liquid
			own := math.LegacyZeroDec()
			for _, va := range vals {
				own = own.Add(allianceStake(c, va))
			}
			return app.BankKeeper.GetSupply(c, bondDenom).Amount.Sub(own.TruncateInt()).Sub(app.BankKeeper.GetBalance(c, moduleAddr, bondDenom).Amount)
		}
		require.NoError(t, endBlock(ctx))
		net0 := netSupply(ctx)
		minted := math.ZeroInt()
		now := start
		slack := int64(0)
		for step := 0; step < 14; step++ {
			steps++
			now = now.Add(time.Minute)
			ctx = ctx.WithBlockHeight(int64(step + 2)).WithBlockTime(now)
			ui, vi, di := rng.Intn(nUsers), rng.Intn(len(vals)), rng.Intn(2)
			amt := []math.Int{math.NewInt(1), math.NewInt(1_000), math.NewInt(1_000_000), math.NewInt(333_333_333)}[rng.Intn(4)]
			cc, write := ctx.CacheContext()
			desc := ""
			externalOp := false // native staking, fees, slashes, jailing: may change the net supply by themselves
			netBeforeOp := netSupply(ctx)
			var err error
			func() {
				defer func() {
					if r := recover(); r != nil {
						err = fmt.Errorf("panic: %v", r)
					}
				}()
				switch op := rng.Intn(15); {
				case op == 14:
					// a REAL staking slash (burns the validator's tokens pro rata: exchange rate != 1 afterwards; fires the module's slash hook)
					if vi == 0 {
						vi = 1
					}
					sv, e := app.StakingKeeper.GetValidator(cc, vals[vi])
					if e != nil || !sv.IsBonded() {
						err = fmt.Errorf("not bonded")
						return
					}
					cons, _ := sv.GetConsAddr()
					frac := []math.LegacyDec{math.LegacyNewDecWithPrec(1, 2), math.LegacyNewDecWithPrec(5, 2), math.LegacyNewDecWithPrec(1, 1)}[rng.Intn(3)]
					desc = fmt.Sprintf("staking Slash(val %d, %s)", vi, frac)
					_, err = app.StakingKeeper.Slash(cc, cons, cc.BlockHeight(), sv.ConsensusPower(app.StakingKeeper.PowerReduction(cc)), frac)
					externalOp = true
				case op >= 12:
					externalOp = true
					// fees paid in the staking denom are distributed to the bonded validators (real tokens: the expected net supply grows by them)
					fee := math.NewInt(int64(1_000_000 * (1 + rng.Intn(5))))
					desc = fmt.Sprintf("fees of %s distributed to the bonded validators", fee)
					fees := sdk.NewCoins(sdk.NewCoin(bondDenom, fee))
					if err = app.BankKeeper.MintCoins(cc, minttypes.ModuleName, fees); err != nil {
						return
					}
					if err = app.BankKeeper.SendCoinsFromModuleToModule(cc, minttypes.ModuleName, authtypes.FeeCollectorName, fees); err != nil {
						return
					}
					var votes []abcitypes.VoteInfo
					power := int64(0)
					for _, va := range vals {
						sv, e := app.StakingKeeper.GetValidator(cc, va)
						if e != nil || !sv.IsBonded() {
							continue
						}
						cons, _ := sv.GetConsAddr()
						votes = append(votes, abcitypes.VoteInfo{Validator: abcitypes.Validator{Address: cons, Power: 1}})
						power++
					}
					if power == 0 {
						err = fmt.Errorf("no bonded validator")
						return
					}
					err = app.DistrKeeper.AllocateTokens(cc, power, votes)
					if err == nil {
						minted = minted.Add(fee)
					}
				case op < 4:
					desc = fmt.Sprintf("alliance Delegate(user %d, val %d, %s%s)", ui, vi, amt, denoms[di])
					v, e := app.AllianceKeeper.GetAllianceValidator(cc, vals[vi])
					if e != nil {
						err = e
						return
					}
					_, err = app.AllianceKeeper.Delegate(cc, users[ui], v, sdk.NewCoin(denoms[di], amt))
				case op < 6:
					desc = fmt.Sprintf("alliance Undelegate(user %d, val %d, %s%s)", ui, vi, amt, denoms[di])
					v, e := app.AllianceKeeper.GetAllianceValidator(cc, vals[vi])
					if e != nil {
						err = e
						return
					}
					_, err = app.AllianceKeeper.Undelegate(cc, users[ui], v, sdk.NewCoin(denoms[di], amt))
				case op < 7:
					to := (vi + 1) % len(vals)
					desc = fmt.Sprintf("alliance Redelegate(user %d, val %d -> %d, %s%s)", ui, vi, to, amt, denoms[di])
					v, e := app.AllianceKeeper.GetAllianceValidator(cc, vals[vi])
					w, e2 := app.AllianceKeeper.GetAllianceValidator(cc, vals[to])
					if e != nil || e2 != nil {
						err = fmt.Errorf("validator")
						return
					}
					_, err = app.AllianceKeeper.Redelegate(cc, users[ui], v, w, sdk.NewCoin(denoms[di], amt))
				case op < 9:
					externalOp = true
					desc = fmt.Sprintf("native Delegate(val %d, %s)", vi, amt)
					sv, e := app.StakingKeeper.GetValidator(cc, vals[vi])
					if e != nil {
						err = e
						return
					}
					_, err = app.StakingKeeper.Delegate(cc, native, amt, stakingtypes.Unbonded, sv, true)
				case op < 10:
					externalOp = true
					desc = fmt.Sprintf("native Undelegate(val %d, everything)", vi)
					d, e := app.StakingKeeper.GetDelegation(cc, native, vals[vi])
					if e != nil {
						err = e
						return
					}
					_, _, err = app.StakingKeeper.Undelegate(cc, native, vals[vi], d.Shares)
				case op < 11:
					a, _ := app.AllianceKeeper.GetAssetByDenom(cc, denoms[di])
					a.RewardWeight = weights[rng.Intn(3)]
					desc = fmt.Sprintf("UpdateAllianceAsset(%s weight -> %s)", denoms[di], a.RewardWeight)
					err = app.AllianceKeeper.UpdateAllianceAsset(cc, a)
				default:
					externalOp = true
					if vi == 0 {
						vi = 1
					}
					sv, e := app.StakingKeeper.GetValidator(cc, vals[vi])
					if e != nil {
						err = e
						return
					}
					cons, _ := sv.GetConsAddr()
					if sv.IsJailed() {
						desc = fmt.Sprintf("Unjail(val %d)", vi)
						err = app.SlashingKeeper.Unjail(cc, vals[vi])
					} else {
						desc = fmt.Sprintf("Jail(val %d)", vi)
						err = app.SlashingKeeper.Jail(cc, cons)
					}
				}
			}()
			if err != nil {
				continue
			}
			write()
			if !externalOp {
				if d := netSupply(ctx).Sub(netBeforeOp).Abs(); d.GT(math.NewInt(3)) {
					fact("net_supply_unchanged", "history %d step %d: %s itself changed supply - the module's own stake by %s", hist, step, desc, netSupply(ctx).Sub(netBeforeOp))
				}
			}
			netBeforeEnd := netSupply(ctx)
			before := map[string]math.LegacyDec{}
			status := map[string]bool{}
			for _, va := range vals {
				before[va.String()] = allianceStake(ctx, va)
			}
			if _, err := app.StakingKeeper.ApplyAndReturnValidatorSetUpdates(ctx); err != nil {
				fact("end_of_block_succeeds", "history %d step %d after %s: validator set update: %v", hist, step, desc, err)
				break
			}
			for _, va := range vals {
				sv, _ := app.StakingKeeper.GetValidator(ctx, va)
				status[va.String()] = sv.IsBonded()
			}
			if err := endBlock(ctx); err != nil {
				fact("end_of_block_succeeds", "history %d step %d after %s: EndBlocker: %v", hist, step, desc, err)
				break
			}
			// independent computation of the targets
			total, _ := app.StakingKeeper.TotalBondedTokens(ctx)
			bonded, _ := app.AllianceKeeper.GetAllianceBondedAmount(ctx, moduleAddr)
			nativeBonded := math.LegacyNewDecFromInt(total.Sub(bonded))
			bondedShares := map[string]math.LegacyDec{}
			nBonded := int64(0)
			for _, va := range vals {
				sv, _ := app.StakingKeeper.GetValidator(ctx, va)
				if !sv.IsBonded() {
					continue
				}
				nBonded++
				info, _ := app.AllianceKeeper.GetAllianceValidator(ctx, va)
				for _, dn := range denoms {
					if _, ok := bondedShares[dn]; !ok {
						bondedShares[dn] = math.LegacyZeroDec()
					}
					bondedShares[dn] = bondedShares[dn].Add(info.ValidatorSharesWithDenom(dn))
				}
			}
			for vi2, va := range vals {
				sv, _ := app.StakingKeeper.GetValidator(ctx, va)
				got := allianceStake(ctx, va)
				if !sv.IsBonded() {
					if status[va.String()] == false && !got.Equal(before[va.String()]) {
						fact("unbonded_validators_not_adjusted", "history %d step %d after %s: validator %d is not bonded, module stake went %s -> %s", hist, step, desc, vi2, before[va.String()], got)
					}
					continue
				}
				info, _ := app.AllianceKeeper.GetAllianceValidator(ctx, va)
				want := math.LegacyZeroDec()
				for _, dn := range denoms {
					a, _ := app.AllianceKeeper.GetAssetByDenom(ctx, dn)
					vs := info.ValidatorSharesWithDenom(dn)
					if !a.RewardsStarted(now) || !vs.IsPositive() || !bondedShares[dn].IsPositive() {
						continue
					}
					want = want.Add(a.RewardWeight.Mul(nativeBonded).Mul(vs).Quo(bondedShares[dn]))
				}
				if got.Sub(want).Abs().GT(math.LegacyNewDec(2)) {
					fact("bonded_validators_at_target", "history %d step %d after %s: validator %d carries %s alliance stake, target %s (native bonded %s)", hist, step, desc, vi2, got, want, nativeBonded)
				}
			}
			if bal := app.BankKeeper.GetBalance(ctx, moduleAddr, bondDenom); !bal.IsZero() {
				fact("module_holds_no_staking_denom", "history %d step %d after %s: module account holds %s", hist, step, desc, bal)
			}
			slack = nBonded*3 + 1
			if d := netSupply(ctx).Sub(netBeforeEnd).Abs(); d.GT(math.NewInt(slack)) {
				fact("net_supply_unchanged", "history %d step %d after %s: the end of the block changed supply - the module's own stake by %s (allowed %d)", hist, step, desc, netSupply(ctx).Sub(netBeforeEnd), slack)
			}
			_ = net0
			held := math.ZeroInt()
			for _, u := range users {
				held = held.Add(app.BankKeeper.GetBalance(ctx, u, bondDenom).Amount)
			}
			if held.GT(minted) {
				fact("no_user_receives_staking_denom", "history %d step %d after %s: users hold %s of the staking denom although only %s of fees (real tokens, paid out as rewards) ever existed outside the module", hist, step, desc, held, minted)
			}
		}
	}
	fmt.Printf("BOUNDED-SUMMARY scenarios=%d seed=%d failed_facts=%d\n", steps, seed, len(failed))
	if len(failed) > 0 {
		t.Fail()
	}
}
