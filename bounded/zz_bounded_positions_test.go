package tests_test

// Bounded validation of the parts of C04 / C05 / C20 that no obligation decides (the COMPOSED 18-digit rounding): the real
// Delegate / Undelegate / Redelegate / SlashValidator are run along seeded random histories with amounts from 1 to 1e30 base units
// and after every step the following facts are checked on the real state:
//   other_positions_unchanged      - a user operation changes no OTHER position's reported value by more than the tolerance
//                                    1 base unit + 4e-18 x (staked total of the asset + the value): 18-digit ratios are taken against the asset total
//   actor_moves_the_amount         - the actor's reported value moves by the amount, never by more, within the same tolerance
//   values_sum_below_staked_total  - the reported values of all positions of an asset sum to at most its staked total + 1 per position
//   slashed_positions_scaled_by_one_minus_f_times_g, other_positions_scaled_by_g (C06) - a slash by f < 1 scales the slashed validator's positions by
//                                    (1-f) x g and every other position by g = total / (total - f x validator's value), within the same tolerance
//   reported_balance_can_be_undelegated, undelegating_the_reported_balance_does_not_panic (on a branch) - every position with a positive
//                                    reported balance can undelegate exactly that balance; reported_balance_minus_tolerance_can_be_undelegated
//   anyone_can_enter (on a branch) - 1 base unit and a large amount can be delegated to every validator
// Every fact is qualified by the regime of the state it was checked in: "" (staked total and amounts below 1e15 base units, no 100%
// slash so far, no zero-valued validator), "@18dec" (a total or amount of 1e15 base units or more), "@after_full_slash" (some validator was
// slashed by 100% earlier in the history), "@zero_valued_validator" (a validator holds delegator shares but its token value rounds to 0:
// the recorded C05 finding); the exit probe also uses "@dust" for positions reported as 1 or 2 base units. Known findings name a fact together with its regime, so the same fact in another regime is still a violation.
// This is a bounded check (histories below, seed from VERIF_SEED), never counted as proved. Run by `gvc check C04|C05 --tier thorough`.

import (
	"fmt"
	"math/rand"
	"os"
	"strconv"
	"testing"
	"time"

	"cosmossdk.io/math"
	sdk "github.com/cosmos/cosmos-sdk/types"
	teststaking "github.com/cosmos/cosmos-sdk/x/staking/testutil"
	"github.com/stretchr/testify/require"

	test_helpers "github.com/terra-money/alliance/app"
	"github.com/terra-money/alliance/x/alliance/types"
)

func TestBoundedPositions(t *testing.T) {
	failed := map[string]bool{}
	regime := "" // "", "@18dec" (staked total >= 1e15 base units), "@after_full_slash", "@zero_valued_validator"
	fact := func(name, format string, args ...interface{}) {
		name += regime
		if !failed[name] {
			fmt.Printf("BOUNDED-FACT-FAILED %s :: %s\n", name, fmt.Sprintf(format, args...))
		}
		failed[name] = true
	}
	seed := int64(1)
	if s, err := strconv.Atoi(os.Getenv("VERIF_SEED")); err == nil {
		seed = int64(s)
	}
	pow10 := func(n int) math.Int {
		r := math.NewInt(1)
		for i := 0; i < n; i++ {
			r = r.MulRaw(10)
		}
		return r
	}
	magnitudes := []math.Int{math.NewInt(1), math.NewInt(7), pow10(6), pow10(12).AddRaw(7), pow10(18), pow10(24), pow10(30)}
	steps, plainSteps := 0, 0
	for hist := 0; hist < 12; hist++ {
		rng := rand.New(rand.NewSource(seed*1000 + int64(hist)))
		app, ctx := createTestContext(t)
		start := time.Now().UTC()
		ctx = ctx.WithBlockTime(start).WithBlockHeight(1)
		app.AllianceKeeper.InitGenesis(ctx, &types.GenesisState{
			Params: types.DefaultParams(),
			Assets: []types.AllianceAsset{
				types.NewAllianceAsset(AllianceDenom, math.LegacyNewDec(2), math.LegacyNewDec(0), math.LegacyNewDec(100), math.LegacyNewDec(0), start),
			},
		})
		nUsers, nVals := 4, 3
		addrs := test_helpers.AddTestAddrsIncremental(app, ctx, nUsers+nVals, sdk.NewCoins(sdk.NewCoin(AllianceDenom, pow10(32))))
		pks := test_helpers.CreateTestPubKeys(nVals)
		var vals []sdk.ValAddress
		for i := 0; i < nVals; i++ {
			va := sdk.ValAddress(addrs[i])
			test_helpers.RegisterNewValidator(t, app, ctx, teststaking.NewValidator(t, va, pks[i]))
			vals = append(vals, va)
		}
		users := addrs[nVals:]
		getVal := func(c sdk.Context, va sdk.ValAddress) types.AllianceValidator {
			v, err := app.AllianceKeeper.GetAllianceValidator(c, va)
			require.NoError(t, err)
			return v
		}
		type key struct{ u, v int }
		values := func(c sdk.Context) (map[key]math.Int, math.Int, int) {
			out := map[key]math.Int{}
			sum := math.ZeroInt()
			n := 0
			asset, _ := app.AllianceKeeper.GetAssetByDenom(c, AllianceDenom)
			for ui, u := range users {
				for vi, va := range vals {
					d, found := app.AllianceKeeper.GetDelegation(c, u, va, AllianceDenom)
					if !found {
						continue
					}
					var amt math.Int
					func() {
						defer func() {
							if r := recover(); r != nil {
								amt = math.NewInt(-1)
							}
						}()
						amt = types.GetDelegationTokens(d, getVal(c, va), asset).Amount
					}()
					out[key{ui, vi}] = amt
					if amt.IsPositive() {
						sum = sum.Add(amt)
					}
					n++
				}
			}
			return out, sum, n
		}
		scale := math.ZeroInt() // the larger of the asset's staked totals before and after the current step
		tol := func(v math.Int) math.Int { // 1 base unit + a few units in the 18th digit of the asset's staked total (the scale the 18-digit ratios are taken at)
			return scale.Add(v).MulRaw(4).Quo(pow10(18)).AddRaw(1)
		}
		zeroValued := func(c sdk.Context) bool {
			asset, _ := app.AllianceKeeper.GetAssetByDenom(c, AllianceDenom)
			for _, va := range vals {
				v := getVal(c, va)
				if !v.TotalDelegationSharesWithDenom(AllianceDenom).TruncateInt().IsZero() && v.TotalTokensWithAsset(asset).IsZero() {
					return true
				}
			}
			return false
		}
		try := func(f func() error) (err error, pan interface{}) {
			defer func() { pan = recover() }()
			err = f()
			return
		}
		fullSlash := false
		for step := 0; step < 14; step++ {
			steps++
			ctx = ctx.WithBlockHeight(int64(step + 2)).WithBlockTime(start.Add(time.Duration(step+1) * time.Minute))
			before, _, _ := values(ctx)
			if a0, ok := app.AllianceKeeper.GetAssetByDenom(ctx, AllianceDenom); ok {
				scale = a0.TotalTokens
			}
			ui, vi := rng.Intn(nUsers), rng.Intn(nVals)
			amount := magnitudes[rng.Intn(len(magnitudes))]
			if hist%2 == 0 {
				amount = magnitudes[rng.Intn(4)] // even histories stay below 1e15 base units and are never fully slashed: the plain regime
			}
			op := rng.Intn(10)
			desc := ""
			var actorKeys []key
			isUserOp := true
			slashedVal, slashFrac := -1, math.LegacyZeroDec()
			var assetBefore types.AllianceAsset
			slashedValTokens := math.LegacyZeroDec()
			excluded := map[key]bool{}
			wantDelta := map[key]math.Int{}
			cctx, write := ctx.CacheContext()
			var err error
			var pan interface{}
			switch {
			case op < 5 || len(before) == 0:
				desc = fmt.Sprintf("history %d step %d: Delegate(user %d, val %d, %s)", hist, step, ui, vi, amount)
				err, pan = try(func() error {
					_, e := app.AllianceKeeper.Delegate(cctx, users[ui], getVal(cctx, vals[vi]), sdk.NewCoin(AllianceDenom, amount))
					return e
				})
				actorKeys = []key{{ui, vi}}
				wantDelta[key{ui, vi}] = amount
			case op < 7:
				var ks []key
				for k, v := range before {
					if v.IsPositive() {
						ks = append(ks, k)
					}
				}
				if len(ks) == 0 {
					continue
				}
				// deterministic pick
				best := ks[0]
				for _, k := range ks {
					if k.u*10+k.v < best.u*10+best.v {
						best = k
					}
				}
				k := best
				amt := before[k]
				if rng.Intn(2) == 0 && amt.GT(math.NewInt(1)) {
					amt = amt.QuoRaw(2)
				}
				desc = fmt.Sprintf("history %d step %d: Undelegate(user %d, val %d, %s of reported %s)", hist, step, k.u, k.v, amt, before[k])
				err, pan = try(func() error {
					_, e := app.AllianceKeeper.Undelegate(cctx, users[k.u], getVal(cctx, vals[k.v]), sdk.NewCoin(AllianceDenom, amt))
					return e
				})
				actorKeys = []key{k}
				wantDelta[k] = amt.Neg()
			case op < 9:
				var from *key
				for k, v := range before {
					kk := k
					if v.IsPositive() && (from == nil || k.u*10+k.v < from.u*10+from.v) {
						from = &kk
					}
				}
				if from == nil {
					continue
				}
				to := (from.v + 1 + rng.Intn(nVals-1)) % nVals
				amt := before[*from]
				if amt.GT(math.NewInt(1)) {
					amt = amt.QuoRaw(3).AddRaw(1)
				}
				desc = fmt.Sprintf("history %d step %d: Redelegate(user %d, val %d -> %d, %s)", hist, step, from.u, from.v, to, amt)
				err, pan = try(func() error {
					_, e := app.AllianceKeeper.Redelegate(cctx, users[from.u], getVal(cctx, vals[from.v]), getVal(cctx, vals[to]), sdk.NewCoin(AllianceDenom, amt))
					return e
				})
				actorKeys = []key{*from, {from.u, to}}
				wantDelta[*from] = amt.Neg()
				wantDelta[key{from.u, to}] = amt
			default:
				isUserOp = false
				nf := 4
				if hist%2 == 0 {
					nf = 3
				}
				f := []math.LegacyDec{math.LegacyNewDecWithPrec(1, 4), math.LegacyNewDecWithPrec(5, 2), math.LegacyNewDecWithPrec(5, 1), math.LegacyOneDec()}[rng.Intn(nf)]
				if f.Equal(math.LegacyOneDec()) {
					fullSlash = true
				}
				slashedVal, slashFrac = vi, f
				assetBefore, _ = app.AllianceKeeper.GetAssetByDenom(ctx, AllianceDenom)
				func() {
					defer func() { _ = recover() }()
					slashedValTokens = getVal(ctx, vals[vi]).TotalTokensWithAsset(assetBefore)
				}()
				// positions that a pending redelegation out of the slashed validator points to are reduced further (C07): not part of this fact
				app.AllianceKeeper.IterateRedelegations(ctx, func(r types.Redelegation, ct time.Time) bool {
					if r.SrcValidatorAddress == vals[vi].String() {
						for ui2, u := range users {
							if u.String() == r.DelegatorAddress {
								for vi2, va := range vals {
									if va.String() == r.DstValidatorAddress {
										// the redelegated position is reduced further (C07) and what it loses is redistributed to the other positions on that validator
										for ui3 := range users {
											excluded[key{ui3, vi2}] = true
										}
										_ = ui2
									}
								}
							}
						}
					}
					return false
				})
				desc = fmt.Sprintf("history %d step %d: SlashValidator(val %d, %s)", hist, step, vi, f)
				err, pan = try(func() error { return app.AllianceKeeper.SlashValidator(cctx, vals[vi], f) })
			}
			setRegime := func(c sdk.Context) {
				a1, _ := app.AllianceKeeper.GetAssetByDenom(c, AllianceDenom)
				switch {
				case zeroValued(c):
					regime = "@zero_valued_validator"
				case fullSlash:
					regime = "@after_full_slash"
				case scale.GTE(pow10(15)) || a1.TotalTokens.GTE(pow10(15)) || amount.GTE(pow10(15)):
					regime = "@18dec"
				default:
					regime = ""
				}
			}
			setRegime(ctx)
			if regime == "" {
				plainSteps++
			}
			if pan != nil {
				if regime == "" && zeroValued(cctx) {
					regime = "@zero_valued_validator"
				}
				fact("operations_do_not_panic", "%s panicked: %v", desc, pan)
				continue
			}
			if err != nil {
				continue // a rejected operation changes nothing (transaction semantics): not part of this check
			}
			write()
			after, sum, n := values(ctx)
			asset, _ := app.AllianceKeeper.GetAssetByDenom(ctx, AllianceDenom)
			if asset.TotalTokens.GT(scale) {
				scale = asset.TotalTokens
			}
			setRegime(ctx)
			if sum.GT(asset.TotalTokens.AddRaw(int64(n)).Add(asset.TotalTokens.MulRaw(int64(4 * (n + 1))).Quo(pow10(18)))) {
				fact("values_sum_below_staked_total", "%s: reported values sum to %s, staked total %s, %d positions", desc, sum, asset.TotalTokens, n)
			}
			if !isUserOp && slashedVal >= 0 && slashFrac.LT(math.LegacyOneDec()) {
				// C06: positions on the slashed validator become (1-f) x g times their value, all others g times, where g keeps the staked total
				tt := math.LegacyNewDecFromInt(assetBefore.TotalTokens)
				denom := tt.Sub(slashFrac.Mul(slashedValTokens))
				if denom.IsPositive() && tt.IsPositive() {
					g := tt.Quo(denom)
					for k, v0 := range before {
						if v0.IsNegative() || excluded[k] {
							continue
						}
						v1, ok := after[k]
						if !ok || v1.IsNegative() {
							continue
						}
						want := math.LegacyNewDecFromInt(v0).Mul(g)
						name := "other_positions_scaled_by_g"
						if k.v == slashedVal {
							want = want.Mul(math.LegacyOneDec().Sub(slashFrac))
							name = "slashed_positions_scaled_by_one_minus_f_times_g"
						}
						tolv := math.LegacyNewDecFromInt(tol(v0)).Add(math.LegacyNewDec(2)).Add(want.Mul(math.LegacyMustNewDecFromStr("0.000000000001")))
						if math.LegacyNewDecFromInt(v1).Sub(want).Abs().GT(tolv) {
							fact(name, "%s: position (user %d, val %d) went from %s to %s, expected %s (g = %s)", desc, k.u, k.v, v0, v1, want, g)
						}
					}
				}
			}
			if isUserOp {
				isActor := map[key]bool{}
				for _, k := range actorKeys {
					isActor[k] = true
				}
				for k, v0 := range before {
					if isActor[k] || v0.IsNegative() {
						continue
					}
					v1, ok := after[k]
					if !ok {
						v1 = math.ZeroInt()
					}
					if v1.IsNegative() {
						continue
					}
					if v1.Sub(v0).Abs().GT(tol(v0)) {
						fact("other_positions_unchanged", "%s: position (user %d, val %d) went from %s to %s", desc, k.u, k.v, v0, v1)
					}
				}
				for k, d := range wantDelta {
					v0, ok0 := before[k]
					if !ok0 {
						v0 = math.ZeroInt()
					}
					v1, ok1 := after[k]
					if !ok1 {
						v1 = math.ZeroInt()
					}
					if v0.IsNegative() || v1.IsNegative() {
						continue
					}
					got := v1.Sub(v0)
					if got.Sub(d).Abs().GT(tol(v0.Add(d.Abs()))) {
						fact("actor_moves_the_amount", "%s: position (user %d, val %d) went from %s to %s, expected a move of %s", desc, k.u, k.v, v0, v1, d)
					}
				}
			}
			// probes on a branch (C05, C20)
			for k, v := range after {
				if !v.IsPositive() {
					continue
				}
				b, _ := ctx.CacheContext()
				e, p := try(func() error {
					_, e := app.AllianceKeeper.Undelegate(b, users[k.u], getVal(b, vals[k.v]), sdk.NewCoin(AllianceDenom, v))
					return e
				})
				if e != nil || p != nil {
					switch {
					case p != nil:
						fact("undelegating_the_reported_balance_does_not_panic", "after %s: undelegating the reported balance %s of (user %d, val %d) panics: %v", desc, v, k.u, k.v, p)
					default:
						saved := regime
						if regime == "" && v.LTE(math.NewInt(2)) {
							regime = "@dust" // a position reported as 1 or 2 base units whose shares are worth less than that
						}
						fact("reported_balance_can_be_undelegated", "after %s: undelegating the reported balance %s of (user %d, val %d) fails: %v", desc, v, k.u, k.v, e)
						regime = saved
					}
					// the same minus the rounding tolerance must go through
					less := v.Sub(tol(v))
					if less.IsPositive() {
						b2, _ := ctx.CacheContext()
						e2, p2 := try(func() error {
							_, e := app.AllianceKeeper.Undelegate(b2, users[k.u], getVal(b2, vals[k.v]), sdk.NewCoin(AllianceDenom, less))
							return e
						})
						if e2 != nil || p2 != nil {
							fact("reported_balance_minus_tolerance_can_be_undelegated", "after %s: undelegating %s (reported %s minus tolerance) of (user %d, val %d) fails: err %v panic %v", desc, less, v, k.u, k.v, e2, p2)
						}
					}
				}
			}
			for vi2 := range vals {
				for _, a := range []math.Int{math.NewInt(1), pow10(20)} {
					b, _ := ctx.CacheContext()
					e, p := try(func() error {
						_, e := app.AllianceKeeper.Delegate(b, users[0], getVal(b, vals[vi2]), sdk.NewCoin(AllianceDenom, a))
						return e
					})
					if e != nil || p != nil {
						fact("anyone_can_enter", "after %s: delegating %s to val %d fails: err %v panic %v", desc, a, vi2, e, p)
					}
				}
			}
		}
	}
	fmt.Printf("BOUNDED-SUMMARY scenarios=%d plain_regime_steps=%d seed=%d failed_facts=%d\n", steps, plainSteps, seed, len(failed))
	if len(failed) > 0 {
		t.Fail()
	}
}
