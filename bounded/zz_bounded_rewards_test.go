package tests_test

// Bounded validation of the TRUSTED contracts of AddAssetsToRewardPool and CalculateDelegationRewards/accumulateRewards
// (the index arithmetic that no obligation covers, C12/C13): the REAL functions are run on a grid of stake magnitudes,
// reward amounts, reward weights and delegator counts, and the statements the trusted contracts and C12 need are checked:
//   indices_only_grow; claims_never_exceed_the_deposit (every claim succeeds in a seeded random order and paid <= received,
//   EXACTLY); claims_covered_up_to_index_rounding (the same, but tolerating an excess of at most stake/1e18 + #positions + 1
//   base units per reward denom: the size of one half-up rounding of an 18-digit index multiplied by the stake);
//   second_claim_pays_nothing; position_settled_after_claim; payouts_pro_rata_within_an_asset; rewards_split_between_assets_by_weight (C13). No slash and no take-rate step occurs between deposit and claim
//   (those are separate recorded C12 findings). Every failed fact is printed as `BOUNDED-FACT-FAILED <fact> :: <inputs>`.
// This is a bounded check (grid below, seed from VERIF_SEED), never counted as proved. Run by `gvc check C12|C13 --tier thorough`.

import (
	"fmt"
	"math/rand"
	"os"
	"strconv"
	"testing"
	"time"

	"cosmossdk.io/math"
	sdk "github.com/cosmos/cosmos-sdk/types"
	teststaking "github.com/cosmos/cosmos-sdk/x/staking/testutil"
	"github.com/stretchr/testify/require"

	test_helpers "github.com/terra-money/alliance/app"
	"github.com/terra-money/alliance/x/alliance/types"
)

func big18p(a, b math.Int) string {
	if a.Add(b).GTE(math.NewInt(1_000_000_000_000_000)) {
		return "@18dec"
	}
	return ""
}

func TestBoundedRewardArithmetic(t *testing.T) {
	failed := map[string]bool{}
	fact := func(name, format string, args ...interface{}) {
		if !failed[name] {
			fmt.Printf("BOUNDED-FACT-FAILED %s :: %s\n", name, fmt.Sprintf(format, args...))
		}
		failed[name] = true
	}
	seed := int64(1)
	if s, err := strconv.Atoi(os.Getenv("VERIF_SEED")); err == nil {
		seed = int64(s)
	}
	rng := rand.New(rand.NewSource(seed))
	big24, _ := math.NewIntFromString("1000000000000000000000000")
	stakes := []math.Int{math.NewInt(1), math.NewInt(999), math.NewInt(1_000_000), math.NewInt(1_000_000_007), big24}
	rewards := []math.Int{math.NewInt(1), math.NewInt(7), math.NewInt(1_000_000), math.NewInt(999_999_999_999)}
	weights := []math.LegacyDec{math.LegacyNewDecWithPrec(1, 2), math.LegacyNewDec(1), math.LegacyNewDec(7)}
	cases := 0
	for _, nDel := range []int{1, 2, 3, 5} {
		for wi, w := range weights {
			for ri, rw := range rewards {
				cases++
				name := fmt.Sprintf("delegators=%d weight=%s reward=%s", nDel, w, rw)
				app, ctx := createTestContext(t)
				start := time.Now().UTC()
				ctx = ctx.WithBlockTime(start).WithBlockHeight(1)
				app.AllianceKeeper.InitGenesis(ctx, &types.GenesisState{
					Params: types.DefaultParams(),
					Assets: []types.AllianceAsset{
						types.NewAllianceAsset(AllianceDenom, w, math.LegacyNewDec(0), math.LegacyNewDec(100), math.LegacyNewDec(0), start),
						types.NewAllianceAsset(AllianceDenomTwo, weights[(wi+1)%len(weights)], math.LegacyNewDec(0), math.LegacyNewDec(100), math.LegacyNewDec(0), start),
					},
				})
				fund := sdk.NewCoins(sdk.NewCoin(AllianceDenom, big24.MulRaw(4)), sdk.NewCoin(AllianceDenomTwo, big24.MulRaw(4)), sdk.NewCoin("rwa", rw.MulRaw(4)), sdk.NewCoin("rwb", rw.MulRaw(4)))
				addrs := test_helpers.AddTestAddrsIncremental(app, ctx, nDel+2, fund)
				pks := test_helpers.CreateTestPubKeys(1)
				valAddr := sdk.ValAddress(addrs[0])
				test_helpers.RegisterNewValidator(t, app, ctx, teststaking.NewValidator(t, valAddr, pks[0]))
				get := func() types.AllianceValidator {
					v, err := app.AllianceKeeper.GetAllianceValidator(ctx, valAddr)
					require.NoError(t, err, name)
					return v
				}
				type pos struct {
					who   sdk.AccAddress
					denom string
				}
				var positions []pos
				for i := 0; i < nDel; i++ {
					d := AllianceDenom
					if i%3 == 2 {
						d = AllianceDenomTwo
					}
					st := stakes[(i+ri+wi)%len(stakes)]
					_, err := app.AllianceKeeper.Delegate(ctx, addrs[2+i], get(), sdk.NewCoin(d, st))
					require.NoError(t, err, name)
					positions = append(positions, pos{addrs[2+i], d})
				}
				ctx = ctx.WithBlockHeight(2).WithBlockTime(start.Add(time.Minute))
				before := get().GlobalRewardHistory
				deposit := sdk.NewCoins(sdk.NewCoin("rwa", rw), sdk.NewCoin("rwb", rw.QuoRaw(3).AddRaw(1)))
				require.NoError(t, app.AllianceKeeper.AddAssetsToRewardPool(ctx, addrs[1], get(), deposit), name)
				after := types.NewRewardHistories(get().GlobalRewardHistory)
				for _, h := range before {
					cur, found := after.GetIndexByDenom(h.Denom, h.Alliance)
					if !found || cur.Index.LT(h.Index) {
						fact("indices_only_grow", "%s: index (%s,%s) went from %s to %v", name, h.Denom, h.Alliance, h.Index, cur)
					}
				}
				staked := math.ZeroInt()
				for _, a := range app.AllianceKeeper.GetAllAssets(ctx) {
					staked = staked.Add(a.TotalTokens)
				}
				allowance := staked.Quo(math.NewInt(1_000_000_000_000_000_000)).AddRaw(int64(nDel) + 1)
				pool := app.AccountKeeper.GetModuleAddress(types.RewardsPoolName)
				received := app.BankKeeper.GetAllBalances(ctx, pool)
				paid := sdk.NewCoins()
				rng.Shuffle(len(positions), func(i, j int) { positions[i], positions[j] = positions[j], positions[i] })
				type paidT struct {
					denom string
					stake math.Int
					paid  math.Int
				}
				var paidList []paidT
				for _, p := range positions {
					del0, _ := app.AllianceKeeper.GetDelegation(ctx, p.who, valAddr, p.denom)
					asset0, _ := app.AllianceKeeper.GetAssetByDenom(ctx, p.denom)
					due, _, err := app.AllianceKeeper.CalculateDelegationRewards(ctx, del0, get(), asset0)
					require.NoError(t, err, name)
					c, err := app.AllianceKeeper.ClaimDelegationRewards(ctx, p.who, get(), p.denom)
					if err != nil {
						fact("claims_never_exceed_the_deposit", "%s: claim of %s/%s (due %s) failed: %v (paid so far %s of %s received)", name, p.who, p.denom, due, err, paid, received)
						for _, dc := range due {
							left := received.AmountOf(dc.Denom).Sub(paid.AmountOf(dc.Denom))
							if dc.Amount.Sub(left).GT(allowance) {
								fact("claims_covered_up_to_index_rounding", "%s: claim of %s/%s is due %s but only %s%s is left of the deposit; excess beyond the rounding allowance %s", name, p.who, p.denom, dc, left, dc.Denom, allowance)
							}
						}
						continue
					}
					paid = paid.Add(c...)
					paidList = append(paidList, paidT{p.denom, types.GetDelegationTokens(del0, get(), asset0).Amount, c.AmountOf("rwa")})
					del, found := app.AllianceKeeper.GetDelegation(ctx, p.who, valAddr, p.denom) // (5)
					require.True(t, found, name)
					want := types.NewRewardHistories(get().GlobalRewardHistory).GetIndexByAlliance(p.denom)
					have := types.NewRewardHistories(del.RewardHistory)
					for _, h := range want {
						got, ok := have.GetIndexByDenom(h.Denom, h.Alliance)
						if !ok || !got.Index.Equal(h.Index) {
							fact("position_settled_after_claim", "%s: %s/%s index (%s,%s) is %v, validator has %s", name, p.who, p.denom, h.Denom, h.Alliance, got, h.Index)
						}
					}
					again, err := app.AllianceKeeper.ClaimDelegationRewards(ctx, p.who, get(), p.denom)
					if err != nil || !again.IsZero() {
						fact("second_claim_pays_nothing", "%s: second claim of %s/%s paid %s err %v", name, p.who, p.denom, again, err)
					}
				}
				// C13: pro rata within an asset (payout / stake equal up to truncation) and between assets by reward weight (one validator: share = weight)
				perAsset := map[string]math.Int{}
				for i, a := range paidList {
					if _, ok := perAsset[a.denom]; !ok {
						perAsset[a.denom] = math.ZeroInt()
					}
					perAsset[a.denom] = perAsset[a.denom].Add(a.paid)
					for _, b := range paidList[i+1:] {
						if a.denom != b.denom || !a.stake.IsPositive() || !b.stake.IsPositive() {
							continue
						}
						// |pa/sa - pb/sb| <= 1/sa + 1/sb (one truncation each) + 1e-12 relative (18-digit index)  <=>  |pa*sb - pb*sa| <= sa + sb + rel
						lhs := a.paid.Mul(b.stake).Sub(b.paid.Mul(a.stake)).Abs()
						rel := a.paid.Mul(b.stake).Add(b.paid.Mul(a.stake)).Quo(math.NewInt(1_000_000_000_000))
						if lhs.GT(a.stake.Add(b.stake).Add(rel)) {
							fact("payouts_pro_rata_within_an_asset"+big18p(a.stake, b.stake), "%s: %s positions of %s and %s were paid %s and %s", name, a.denom, a.stake, b.stake, a.paid, b.paid)
						}
					}
				}
				big18 := ""
				if staked.GTE(math.NewInt(1_000_000_000_000_000)) {
					big18 = "@18dec" // 1e15 base units or more staked: an index increment below 1e-18 per token is lost (or rounded up) entirely
					// the recorded finding needs an increment (deposit / staked) within a few thousand units of the 18th digit; a deposit
					// large enough for six significant digits in the index is expected to be split correctly
					if rw.Mul(math.NewInt(1_000_000_000_000)).GTE(staked) {
						big18 = "@18dec_increment_has_6_digits"
					}
				}
				if pa, ok := perAsset[AllianceDenom]; ok {
					if pb, ok2 := perAsset[AllianceDenomTwo]; ok2 && len(paidList) == len(positions) {
						wa, wb := w, weights[(wi+1)%len(weights)]
						// pa / wa == pb / wb up to one truncation per position and the 18-digit index:  |pa*wb - pb*wa| <= (wa + wb) * (#positions + 1) + 1e-9 relative
						lhs := wb.MulInt(pa).Sub(wa.MulInt(pb)).Abs()
						bound := wa.Add(wb).MulInt64(int64(len(positions) + 1)).Add(wb.MulInt(pa).Add(wa.MulInt(pb)).Mul(math.LegacyMustNewDecFromStr("0.000000001")))
						if lhs.GT(bound) {
							fact("rewards_split_between_assets_by_weight"+big18, "%s: asset %s (weight %s) was paid %s, asset %s (weight %s) was paid %s", name, AllianceDenom, wa, pa, AllianceDenomTwo, wb, pb)
						}
					}
				}
				for _, pc := range paid {
					if ex := pc.Amount.Sub(received.AmountOf(pc.Denom)); ex.IsPositive() {
						fact("claims_never_exceed_the_deposit", "%s: paid %s, pool had received %s", name, paid, received)
						if ex.GT(allowance) {
							fact("claims_covered_up_to_index_rounding", "%s: paid %s, pool had received %s: excess beyond the rounding allowance %s", name, paid, received, allowance)
						}
					}
				}
			}
		}
	}
	// claims that step through a reward-weight change: a position that has claimed before, accrues, sees the asset's weight change
	// (a snapshot is stored), accrues again and claims - every deposit is paid out exactly once (within a unit per deposit and denom)
	for _, nw := range []math.LegacyDec{math.LegacyNewDecWithPrec(5, 1), math.LegacyNewDec(3)} {
		for _, stakeB := range []math.Int{math.NewInt(1_000_000), math.NewInt(3_000_000)} {
			cases++
			name := fmt.Sprintf("weight change 1 -> %s, stakes 1000000/%s", nw, stakeB)
			app, ctx := createTestContext(t)
			start := time.Now().UTC()
			ctx = ctx.WithBlockTime(start).WithBlockHeight(1)
			app.AllianceKeeper.InitGenesis(ctx, &types.GenesisState{
				Params: types.DefaultParams(),
				Assets: []types.AllianceAsset{types.NewAllianceAsset(AllianceDenom, math.LegacyNewDec(1), math.LegacyNewDec(0), math.LegacyNewDec(100), math.LegacyNewDec(0), start)},
			})
			addrs := test_helpers.AddTestAddrsIncremental(app, ctx, 4, sdk.NewCoins(sdk.NewCoin(AllianceDenom, math.NewInt(100_000_000)), sdk.NewCoin("rwa", math.NewInt(100_000_000))))
			pks := test_helpers.CreateTestPubKeys(1)
			valAddr := sdk.ValAddress(addrs[0])
			test_helpers.RegisterNewValidator(t, app, ctx, teststaking.NewValidator(t, valAddr, pks[0]))
			get := func() types.AllianceValidator {
				v, err := app.AllianceKeeper.GetAllianceValidator(ctx, valAddr)
				require.NoError(t, err, name)
				return v
			}
			a, b := addrs[2], addrs[3]
			_, err := app.AllianceKeeper.Delegate(ctx, a, get(), sdk.NewCoin(AllianceDenom, math.NewInt(1_000_000)))
			require.NoError(t, err, name)
			_, err = app.AllianceKeeper.Delegate(ctx, b, get(), sdk.NewCoin(AllianceDenom, stakeB))
			require.NoError(t, err, name)
			dep := func(h int64, n int64) {
				ctx = ctx.WithBlockHeight(h).WithBlockTime(start.Add(time.Duration(h) * time.Minute))
				require.NoError(t, app.AllianceKeeper.AddAssetsToRewardPool(ctx, addrs[1], get(), sdk.NewCoins(sdk.NewCoin("rwa", math.NewInt(n)))), name)
			}
			paidA, paidB := math.ZeroInt(), math.ZeroInt()
			claim := func(who sdk.AccAddress, acc *math.Int) {
				c, err := app.AllianceKeeper.ClaimDelegationRewards(ctx, who, get(), AllianceDenom)
				if err != nil {
					fact("claims_across_a_weight_change_pay_each_deposit_once", "%s: claim failed: %v", name, err)
					return
				}
				*acc = acc.Add(c.AmountOf("rwa"))
			}
			dep(2, 4_000_000)
			claim(a, &paidA) // a now carries a history entry; b has never claimed
			dep(3, 4_000_000)
			asset, _ := app.AllianceKeeper.GetAssetByDenom(ctx, AllianceDenom)
			asset.RewardWeight = nw
			ctx = ctx.WithBlockHeight(4).WithBlockTime(start.Add(4 * time.Minute))
			require.NoError(t, app.AllianceKeeper.UpdateAllianceAsset(ctx, asset), name)
			dep(5, 4_000_000)
			claim(a, &paidA)
			claim(b, &paidB)
			total := math.NewInt(12_000_000)
			shareA := total.MulRaw(1_000_000).Quo(stakeB.AddRaw(1_000_000))
			shareB := total.Sub(shareA)
			if paidA.Sub(shareA).Abs().GT(math.NewInt(3)) || paidB.Sub(shareB).Abs().GT(math.NewInt(3)) || paidA.Add(paidB).GT(total) {
				fact("claims_across_a_weight_change_pay_each_deposit_once", "%s: three deposits of 4000000 were paid out as %s and %s (pro rata: %s and %s)", name, paidA, paidB, shareA, shareB)
			}
		}
	}
	// an 18-decimals asset next to a 6-decimals asset of equal weight on one validator: a deposit large enough to be representable in both
	// indices is split evenly (neither asset is starved because its staked total is large)
	for _, bigStake := range []string{"5000000000000000000", "70000000000000000000", "123456789012345678901"} {
		cases++
		name := "18-decimals asset with " + bigStake + " staked next to 1000000 of a 6-decimals asset"
		app, ctx := createTestContext(t)
		start := time.Now().UTC()
		ctx = ctx.WithBlockTime(start).WithBlockHeight(1)
		app.AllianceKeeper.InitGenesis(ctx, &types.GenesisState{
			Params: types.DefaultParams(),
			Assets: []types.AllianceAsset{
				types.NewAllianceAsset(AllianceDenom, math.LegacyNewDec(1), math.LegacyNewDec(0), math.LegacyNewDec(100), math.LegacyNewDec(0), start),
				types.NewAllianceAsset(AllianceDenomTwo, math.LegacyNewDec(1), math.LegacyNewDec(0), math.LegacyNewDec(100), math.LegacyNewDec(0), start),
			},
		})
		bs, _ := math.NewIntFromString(bigStake)
		addrs := test_helpers.AddTestAddrsIncremental(app, ctx, 4, sdk.NewCoins(sdk.NewCoin(AllianceDenom, bs), sdk.NewCoin(AllianceDenomTwo, math.NewInt(1_000_000)), sdk.NewCoin("rwa", math.NewInt(2_000_000_000))))
		pks := test_helpers.CreateTestPubKeys(1)
		valAddr := sdk.ValAddress(addrs[0])
		test_helpers.RegisterNewValidator(t, app, ctx, teststaking.NewValidator(t, valAddr, pks[0]))
		get := func() types.AllianceValidator {
			v, err := app.AllianceKeeper.GetAllianceValidator(ctx, valAddr)
			require.NoError(t, err, name)
			return v
		}
		_, err := app.AllianceKeeper.Delegate(ctx, addrs[2], get(), sdk.NewCoin(AllianceDenom, bs))
		require.NoError(t, err, name)
		_, err = app.AllianceKeeper.Delegate(ctx, addrs[3], get(), sdk.NewCoin(AllianceDenomTwo, math.NewInt(1_000_000)))
		require.NoError(t, err, name)
		ctx = ctx.WithBlockHeight(2).WithBlockTime(start.Add(time.Minute))
		require.NoError(t, app.AllianceKeeper.AddAssetsToRewardPool(ctx, addrs[1], get(), sdk.NewCoins(sdk.NewCoin("rwa", math.NewInt(2_000_000_000)))), name)
		c1, e1 := app.AllianceKeeper.ClaimDelegationRewards(ctx, addrs[2], get(), AllianceDenom)
		c2, e2 := app.AllianceKeeper.ClaimDelegationRewards(ctx, addrs[3], get(), AllianceDenomTwo)
		half := math.NewInt(1_000_000_000)
		if e1 != nil || e2 != nil || c1.AmountOf("rwa").Sub(half).Abs().GT(math.NewInt(100_000)) || c2.AmountOf("rwa").Sub(half).Abs().GT(math.NewInt(100_000)) {
			fact("large_total_asset_is_not_starved", "%s: a deposit of 2000000000 was paid out as %s (err %v) and %s (err %v); each asset is due 1000000000 (0.01%% tolerance)", name, c1, e1, c2, e2)
		}
	}
	// an alliance whose reward weight is 0 next to one with a positive weight on the same validator: the whole deposit goes to the
	// positive-weight alliance, whichever of the two is stored first
	for _, zeroFirst := range []bool{true, false} {
		cases++
		name := fmt.Sprintf("zero-weight alliance stored first=%v", zeroFirst)
		app, ctx := createTestContext(t)
		start := time.Now().UTC()
		ctx = ctx.WithBlockTime(start).WithBlockHeight(1)
		wa, wb := math.LegacyNewDec(1), math.LegacyNewDec(1)
		app.AllianceKeeper.InitGenesis(ctx, &types.GenesisState{
			Params: types.DefaultParams(),
			Assets: []types.AllianceAsset{
				types.NewAllianceAsset(AllianceDenom, wa, math.LegacyNewDec(0), math.LegacyNewDec(100), math.LegacyNewDec(0), start),
				types.NewAllianceAsset(AllianceDenomTwo, wb, math.LegacyNewDec(0), math.LegacyNewDec(100), math.LegacyNewDec(0), start),
			},
		})
		addrs := test_helpers.AddTestAddrsIncremental(app, ctx, 4, sdk.NewCoins(sdk.NewCoin(AllianceDenom, math.NewInt(10_000_000)), sdk.NewCoin(AllianceDenomTwo, math.NewInt(10_000_000)), sdk.NewCoin("rwa", math.NewInt(10_000_000))))
		pks := test_helpers.CreateTestPubKeys(1)
		valAddr := sdk.ValAddress(addrs[0])
		test_helpers.RegisterNewValidator(t, app, ctx, teststaking.NewValidator(t, valAddr, pks[0]))
		get := func() types.AllianceValidator {
			v, err := app.AllianceKeeper.GetAllianceValidator(ctx, valAddr)
			require.NoError(t, err, name)
			return v
		}
		_, err := app.AllianceKeeper.Delegate(ctx, addrs[2], get(), sdk.NewCoin(AllianceDenom, math.NewInt(1_000_000)))
		require.NoError(t, err, name)
		_, err = app.AllianceKeeper.Delegate(ctx, addrs[3], get(), sdk.NewCoin(AllianceDenomTwo, math.NewInt(1_000_000)))
		require.NoError(t, err, name)
		zeroDenom, paidDenom, paidTo := AllianceDenom, AllianceDenomTwo, addrs[3]
		if !zeroFirst {
			zeroDenom, paidDenom, paidTo = AllianceDenomTwo, AllianceDenom, addrs[2]
		}
		ctx = ctx.WithBlockHeight(2).WithBlockTime(start.Add(time.Minute))
		za, _ := app.AllianceKeeper.GetAssetByDenom(ctx, zeroDenom)
		za.RewardWeight = math.LegacyZeroDec()
		require.NoError(t, app.AllianceKeeper.UpdateAllianceAsset(ctx, za), name)
		ctx = ctx.WithBlockHeight(3).WithBlockTime(start.Add(2 * time.Minute))
		require.NoError(t, app.AllianceKeeper.AddAssetsToRewardPool(ctx, addrs[1], get(), sdk.NewCoins(sdk.NewCoin("rwa", math.NewInt(1_000_000)))), name)
		c, cerr := app.AllianceKeeper.ClaimDelegationRewards(ctx, paidTo, get(), paidDenom)
		if cerr != nil || c.AmountOf("rwa").Sub(math.NewInt(1_000_000)).Abs().GT(math.NewInt(2)) {
			fact("zero_weight_alliance_does_not_starve_the_others", "%s: a deposit of 1000000 made after %s went to weight 0 paid the %s position %s (err %v)", name, zeroDenom, paidDenom, c, cerr)
		}
	}
	fmt.Printf("BOUNDED-SUMMARY scenarios=%d seed=%d failed_facts=%d\n", cases, seed, len(failed))
	if len(failed) > 0 {
		t.Fail()
	}
}
