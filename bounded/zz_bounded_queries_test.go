package tests_test

// Bounded stand-in for C20 on the query functions that are not under contract: after every step of a seeded random history (same-block
// steps so that buckets are shared) the gRPC queries are compared with an INDEPENDENT enumeration of the primary records:
//   unbondings_by_delegator_exact, unbondings_by_denom_and_delegator_exact, unbondings_by_validator_exact - every pending entry matching the
//        filter exactly once, none of another delegator / denom / validator, with the stored amount and completion time
//   redelegations_by_delegator_exact, redelegations_by_denom_exact - likewise for pending redelegation records
//   delegation_query_reports_record_and_balance - AllianceDelegation reports the stored shares and GetDelegationTokens' balance
//   delegations_by_delegator_exact - AlliancesDelegation lists exactly the delegator's positions
// Regime "@shared_bucket": the delegator has a (completion, delegator) bucket holding entries of more than one validator or denom (the
// recorded finding: the unbonding queries return whole buckets).
// This is a bounded check, never counted as proved. Run by `gvc check C20 --tier thorough`.

import (
	"fmt"
	"math/rand"
	"os"
	"sort"
	"strconv"
	"testing"
	"time"

	"cosmossdk.io/math"
	sdk "github.com/cosmos/cosmos-sdk/types"
	"github.com/cosmos/cosmos-sdk/types/query"
	teststaking "github.com/cosmos/cosmos-sdk/x/staking/testutil"
	"github.com/stretchr/testify/require"

	test_helpers "github.com/terra-money/alliance/app"
	"github.com/terra-money/alliance/x/alliance/keeper"
	"github.com/terra-money/alliance/x/alliance/types"
)

func safeCanon(ok bool, f func() string) string {
	if !ok {
		return "<nil response>"
	}
	return f()
}

func TestBoundedQueries(t *testing.T) {
	failed := map[string]bool{}
	regime := ""
	fact := func(name, format string, args ...interface{}) {
		name += regime
		if !failed[name] {
			fmt.Printf("BOUNDED-FACT-FAILED %s :: %s\n", name, fmt.Sprintf(format, args...))
		}
		failed[name] = true
	}
	seed := int64(1)
	if s, err := strconv.Atoi(os.Getenv("VERIF_SEED")); err == nil {
		seed = int64(s)
	}
	steps := 0
	for hist := 0; hist < 10; hist++ {
		rng := rand.New(rand.NewSource(seed*49979687 + int64(hist)))
		app, ctx := createTestContext(t)
		start := time.Now().UTC()
		ctx = ctx.WithBlockTime(start).WithBlockHeight(1)
		app.AllianceKeeper.InitGenesis(ctx, &types.GenesisState{
			Params: types.DefaultParams(),
			Assets: []types.AllianceAsset{
				types.NewAllianceAsset(AllianceDenom, math.LegacyNewDec(2), math.LegacyNewDec(0), math.LegacyNewDec(100), math.LegacyNewDec(0), start),
				types.NewAllianceAsset(AllianceDenomTwo, math.LegacyNewDec(1), math.LegacyNewDec(0), math.LegacyNewDec(100), math.LegacyNewDec(0), start),
			},
		})
		denoms := []string{AllianceDenom, AllianceDenomTwo}
		nUsers, nVals := 3, 3
		addrs := test_helpers.AddTestAddrsIncremental(app, ctx, nUsers+nVals, sdk.NewCoins(sdk.NewCoin(AllianceDenom, math.NewInt(1_000_000_000_000)), sdk.NewCoin(AllianceDenomTwo, math.NewInt(1_000_000_000_000))))
		pks := test_helpers.CreateTestPubKeys(nVals)
		var vals []sdk.ValAddress
		for i := 0; i < nVals; i++ {
			va := sdk.ValAddress(addrs[i])
			test_helpers.RegisterNewValidator(t, app, ctx, teststaking.NewValidator(t, va, pks[i]))
			vals = append(vals, va)
		}
		users := addrs[nVals:]
		qs := keeper.NewQueryServerImpl(app.AllianceKeeper)
		unbondingTime, err := app.StakingKeeper.UnbondingTime(ctx)
		require.NoError(t, err)
		getVal := func(c sdk.Context, va sdk.ValAddress) types.AllianceValidator {
			v, err := app.AllianceKeeper.GetAllianceValidator(c, va)
			require.NoError(t, err)
			return v
		}
		now := start
		if hist%3 == 1 {
			// directed prelude: one delegator unbonds from two validators (and two denoms) in the same block: the entries share a bucket
			pre := ctx.WithBlockHeight(2).WithBlockTime(now)
			for _, c := range []struct {
				v  int
				dn string
			}{{0, AllianceDenom}, {1, AllianceDenom}, {0, AllianceDenomTwo}} {
				_, e := app.AllianceKeeper.Delegate(pre, users[0], getVal(pre, vals[c.v]), sdk.NewCoin(c.dn, math.NewInt(1_000_000)))
				require.NoError(t, e)
				_, e = app.AllianceKeeper.Undelegate(pre, users[0], getVal(pre, vals[c.v]), sdk.NewCoin(c.dn, math.NewInt(300_000)))
				require.NoError(t, e)
			}
		}
		for step := 0; step < 16; step++ {
			steps++
			switch rng.Intn(10) {
			case 0:
				now = now.Add(unbondingTime + time.Second)
			case 1, 2, 3:
				now = now.Add(time.Minute)
			}
			ctx = ctx.WithBlockHeight(int64(step + 2)).WithBlockTime(now)
			ui, vi, di := rng.Intn(nUsers), rng.Intn(nVals), rng.Intn(2)
			amt := []math.Int{math.NewInt(1_000), math.NewInt(250_000), math.NewInt(1_000_000)}[rng.Intn(3)]
			cc, write := ctx.CacheContext()
			var e error
			func() {
				defer func() {
					if r := recover(); r != nil {
						e = fmt.Errorf("panic %v", r)
					}
				}()
				switch op := rng.Intn(10); {
				case op < 4:
					_, e = app.AllianceKeeper.Delegate(cc, users[ui], getVal(cc, vals[vi]), sdk.NewCoin(denoms[di], amt.MulRaw(4)))
				case op < 7:
					_, e = app.AllianceKeeper.Undelegate(cc, users[ui], getVal(cc, vals[vi]), sdk.NewCoin(denoms[di], amt))
				case op < 9:
					to := (vi + 1 + rng.Intn(nVals-1)) % nVals
					_, e = app.AllianceKeeper.Redelegate(cc, users[ui], getVal(cc, vals[vi]), getVal(cc, vals[to]), sdk.NewCoin(denoms[di], amt))
				default:
					app.AllianceKeeper.CompleteRedelegations(cc)
					e = app.AllianceKeeper.CompleteUnbondings(cc)
				}
			}()
			if e == nil {
				write()
			}
			// independent enumeration of pending unbonding entries
			type ub struct {
				t            int64
				del, val, dn string
				amt          string
			}
			var allUb []ub
			sharedBy := map[string]bool{}
			app.AllianceKeeper.IterateUndelegations(ctx, func(u types.QueuedUndelegation, ct time.Time) bool {
				for _, en := range u.Entries {
					allUb = append(allUb, ub{ct.UnixNano(), en.DelegatorAddress, en.ValidatorAddress, en.Balance.Denom, en.Balance.Amount.String()})
					if en.ValidatorAddress != u.Entries[0].ValidatorAddress || en.Balance.Denom != u.Entries[0].Balance.Denom {
						sharedBy[en.DelegatorAddress] = true
					}
				}
				return false
			})
			canon := func(xs []ub) string {
				var ss []string
				for _, x := range xs {
					ss = append(ss, fmt.Sprintf("%d|%s|%s|%s", x.t, x.val, x.dn, x.amt))
				}
				sort.Strings(ss)
				return fmt.Sprint(ss)
			}
			unb := func(x interface{ String() string }) string { return "" }
			_ = unb
			fromResp := func(rs []types.UnbondingDelegation, del string) []ub {
				var out []ub
				for _, r := range rs {
					out = append(out, ub{r.CompletionTime.UnixNano(), del, r.ValidatorAddress, r.Denom, r.Amount.String()})
				}
				return out
			}
			for ui2, u := range users {
				regime = ""
				if sharedBy[u.String()] {
					regime = "@shared_bucket"
				}
				var want []ub
				for _, x := range allUb {
					if x.del == u.String() {
						want = append(want, x)
					}
				}
				r1, err := qs.AllianceUnbondingsByDelegator(ctx, &types.QueryAllianceUnbondingsByDelegatorRequest{DelegatorAddr: u.String()})
				if err != nil || r1 == nil || canon(fromResp(r1.Unbondings, u.String())) != canon(want) {
					fact("unbondings_by_delegator_exact", "history %d step %d user %d: query returned %v (err %v), primary records hold %v", hist, step, ui2, safeCanon(r1 != nil, func() string { return canon(fromResp(r1.Unbondings, u.String())) }), err, canon(want))
				}
				for _, dn := range denoms {
					var wantD []ub
					for _, x := range want {
						if x.dn == dn {
							wantD = append(wantD, x)
						}
					}
					r2, err := qs.AllianceUnbondingsByDenomAndDelegator(ctx, &types.QueryAllianceUnbondingsByDenomAndDelegatorRequest{Denom: dn, DelegatorAddr: u.String()})
					if err != nil || r2 == nil || canon(fromResp(r2.Unbondings, u.String())) != canon(wantD) {
						fact("unbondings_by_denom_and_delegator_exact", "history %d step %d user %d denom %s: query returned %v (err %v), primary records hold %v", hist, step, ui2, dn, safeCanon(r2 != nil, func() string { return canon(fromResp(r2.Unbondings, u.String())) }), err, canon(wantD))
					}
					for vi2, va := range vals {
						var wantV []ub
						for _, x := range wantD {
							if x.val == va.String() {
								wantV = append(wantV, x)
							}
						}
						r3, err := qs.AllianceUnbondings(ctx, &types.QueryAllianceUnbondingsRequest{Denom: dn, DelegatorAddr: u.String(), ValidatorAddr: va.String()})
						if err != nil || r3 == nil || canon(fromResp(r3.Unbondings, u.String())) != canon(wantV) {
							fact("unbondings_by_validator_exact", "history %d step %d user %d denom %s validator %d: query returned %v (err %v), primary records hold %v", hist, step, ui2, dn, vi2, safeCanon(r3 != nil, func() string { return canon(fromResp(r3.Unbondings, u.String())) }), err, canon(wantV))
						}
						// delegation query
						d, found := app.AllianceKeeper.GetDelegation(ctx, u, va, dn)
						resp, qerr := qs.AllianceDelegation(ctx, &types.QueryAllianceDelegationRequest{DelegatorAddr: u.String(), ValidatorAddr: va.String(), Denom: dn})
						regimeSaved := regime
						regime = ""
						if found {
							asset, _ := app.AllianceKeeper.GetAssetByDenom(ctx, dn)
							bal := types.GetDelegationTokens(d, getVal(ctx, va), asset)
							if qerr != nil || !resp.Delegation.Delegation.Shares.Equal(d.Shares) || !resp.Delegation.Balance.Equal(bal) {
								fact("delegation_query_reports_record_and_balance", "history %d step %d user %d validator %d %s: query %v (err %v), record shares %s balance %s", hist, step, ui2, vi2, dn, resp, qerr, d.Shares, bal)
							}
						} else if qerr == nil && resp != nil && resp.Delegation.Balance.Amount.IsPositive() {
							fact("delegation_query_reports_record_and_balance", "history %d step %d user %d validator %d %s: no record, query reports %v", hist, step, ui2, vi2, dn, resp)
						}
						regime = regimeSaved
					}
				}
				// redelegations
				regime = ""
				var wantR []string
				app.AllianceKeeper.IterateRedelegations(ctx, func(r types.Redelegation, ct time.Time) bool {
					if r.DelegatorAddress == u.String() {
						wantR = append(wantR, fmt.Sprintf("%d|%s|%s|%s", ct.UnixNano(), r.SrcValidatorAddress, r.DstValidatorAddress, r.Balance.String()))
					}
					return false
				})
				sort.Strings(wantR)
				rr, err := qs.AllianceRedelegationsByDelegator(ctx, &types.QueryAllianceRedelegationsByDelegatorRequest{DelegatorAddr: u.String()})
				var gotR []string
				if err == nil {
					for _, r := range rr.Redelegations {
						gotR = append(gotR, fmt.Sprintf("%d|%s|%s|%s", r.CompletionTime.UnixNano(), r.SrcValidatorAddress, r.DstValidatorAddress, r.Balance.String()))
					}
				}
				sort.Strings(gotR)
				if err != nil || fmt.Sprint(gotR) != fmt.Sprint(wantR) {
					fact("redelegations_by_delegator_exact", "history %d step %d user %d: query returned %v (err %v), primary records hold %v", hist, step, ui2, gotR, err, wantR)
				}
				// paged requests are windows of the full listing (validates the pagination model the contracts of the paginated queries
				// rest on: prefix-store iteration + the inlined cosmos-sdk query.Paginate)
				if err == nil {
					full := func(rs []types.RedelegationEntry) (out []string) {
						for _, r := range rs {
							out = append(out, fmt.Sprintf("%d|%s|%s|%s", r.CompletionTime.UnixNano(), r.SrcValidatorAddress, r.DstValidatorAddress, r.Balance.String()))
						}
						return
					}
					all := full(rr.Redelegations)
					for _, pg := range [][2]uint64{{0, 1}, {1, 1}, {1, 2}, {0, 2}, {2, 5}} {
						pr, perr := qs.AllianceRedelegationsByDelegator(ctx, &types.QueryAllianceRedelegationsByDelegatorRequest{DelegatorAddr: u.String(), Pagination: &query.PageRequest{Offset: pg[0], Limit: pg[1]}})
						lo, hi := int(pg[0]), int(pg[0]+pg[1])
						if lo > len(all) {
							lo = len(all)
						}
						if hi > len(all) {
							hi = len(all)
						}
						if perr != nil || fmt.Sprint(full(pr.Redelegations)) != fmt.Sprint(all[lo:hi]) {
							fact("paged_redelegations_are_windows_of_the_listing", "history %d step %d user %d offset %d limit %d: page %v (err %v), full listing %v", hist, step, ui2, pg[0], pg[1], safeCanon(pr != nil, func() string { return fmt.Sprint(full(pr.Redelegations)) }), perr, all)
						}
						for _, dn := range denoms {
							fa, e1 := qs.AllianceRedelegations(ctx, &types.QueryAllianceRedelegationsRequest{Denom: dn, DelegatorAddr: u.String()})
							pa, e2 := qs.AllianceRedelegations(ctx, &types.QueryAllianceRedelegationsRequest{Denom: dn, DelegatorAddr: u.String(), Pagination: &query.PageRequest{Offset: pg[0], Limit: pg[1]}})
							if e1 != nil || e2 != nil {
								fact("paged_redelegations_are_windows_of_the_listing", "history %d step %d user %d denom %s offset %d limit %d: errors %v %v", hist, step, ui2, dn, pg[0], pg[1], e1, e2)
								continue
							}
							alld := full(fa.Redelegations)
							lo, hi := int(pg[0]), int(pg[0]+pg[1])
							if lo > len(alld) {
								lo = len(alld)
							}
							if hi > len(alld) {
								hi = len(alld)
							}
							if fmt.Sprint(full(pa.Redelegations)) != fmt.Sprint(alld[lo:hi]) {
								fact("paged_redelegations_are_windows_of_the_listing", "history %d step %d user %d denom %s offset %d limit %d: page %v, full listing %v", hist, step, ui2, dn, pg[0], pg[1], full(pa.Redelegations), alld)
							}
						}
					}
				}
				// the delegator's positions, listed and paged
				{
					var wantD []string
					app.AllianceKeeper.IterateDelegations(ctx, func(d types.Delegation) bool {
						if d.DelegatorAddress == u.String() {
							asset, _ := app.AllianceKeeper.GetAssetByDenom(ctx, d.Denom)
							va, _ := sdk.ValAddressFromBech32(d.ValidatorAddress)
							wantD = append(wantD, fmt.Sprintf("%s|%s|%s|%s", d.ValidatorAddress, d.Denom, d.Shares, types.GetDelegationTokens(d, getVal(ctx, va), asset)))
						}
						return false
					})
					sort.Strings(wantD)
					list := func(ds []types.DelegationResponse) (out []string) {
						for _, d := range ds {
							out = append(out, fmt.Sprintf("%s|%s|%s|%s", d.Delegation.ValidatorAddress, d.Delegation.Denom, d.Delegation.Shares, d.Balance))
						}
						return
					}
					dr, derr := qs.AlliancesDelegation(ctx, &types.QueryAlliancesDelegationsRequest{DelegatorAddr: u.String()})
					if derr != nil {
						fact("delegations_by_delegator_exact", "history %d step %d user %d: error %v", hist, step, ui2, derr)
					} else {
						allD := list(dr.Delegations)
						sorted := append([]string{}, allD...)
						sort.Strings(sorted)
						if fmt.Sprint(sorted) != fmt.Sprint(wantD) {
							fact("delegations_by_delegator_exact", "history %d step %d user %d: query returned %v, primary records hold %v", hist, step, ui2, sorted, wantD)
						}
						for _, pg := range [][2]uint64{{0, 1}, {1, 2}, {2, 3}} {
							pr, perr := qs.AlliancesDelegation(ctx, &types.QueryAlliancesDelegationsRequest{DelegatorAddr: u.String(), Pagination: &query.PageRequest{Offset: pg[0], Limit: pg[1]}})
							lo, hi := int(pg[0]), int(pg[0]+pg[1])
							if lo > len(allD) {
								lo = len(allD)
							}
							if hi > len(allD) {
								hi = len(allD)
							}
							if perr != nil || fmt.Sprint(list(pr.Delegations)) != fmt.Sprint(allD[lo:hi]) {
								fact("paged_delegations_are_windows_of_the_listing", "history %d step %d user %d offset %d limit %d: page %v (err %v), full listing %v", hist, step, ui2, pg[0], pg[1], safeCanon(pr != nil, func() string { return fmt.Sprint(list(pr.Delegations)) }), perr, allD)
							}
						}
					}
				}
				for _, dn := range denoms {
					var wantRD []string
					app.AllianceKeeper.IterateRedelegations(ctx, func(r types.Redelegation, ct time.Time) bool {
						if r.DelegatorAddress == u.String() && r.Balance.Denom == dn {
							wantRD = append(wantRD, fmt.Sprintf("%d|%s|%s|%s", ct.UnixNano(), r.SrcValidatorAddress, r.DstValidatorAddress, r.Balance.String()))
						}
						return false
					})
					sort.Strings(wantRD)
					rd, err := qs.AllianceRedelegations(ctx, &types.QueryAllianceRedelegationsRequest{Denom: dn, DelegatorAddr: u.String()})
					var gotRD []string
					if err == nil {
						for _, r := range rd.Redelegations {
							gotRD = append(gotRD, fmt.Sprintf("%d|%s|%s|%s", r.CompletionTime.UnixNano(), r.SrcValidatorAddress, r.DstValidatorAddress, r.Balance.String()))
						}
					}
					sort.Strings(gotRD)
					if err != nil || fmt.Sprint(gotRD) != fmt.Sprint(wantRD) {
						fact("redelegations_by_denom_exact", "history %d step %d user %d denom %s: query returned %v (err %v), primary records hold %v", hist, step, ui2, dn, gotRD, err, wantRD)
					}
				}
			}
		}
	}
	fmt.Printf("BOUNDED-SUMMARY scenarios=%d seed=%d failed_facts=%d\n", steps, seed, len(failed))
	if len(failed) > 0 {
		t.Fail()
	}
}
