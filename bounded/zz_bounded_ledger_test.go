package tests_test

// Bounded stand-in for the whole-state statements of C01 / C02 / C03 that the contracts decide only as per-function deltas: the real
// Delegate / Undelegate / Redelegate / SlashValidator / CompleteUnbondings are run along seeded random histories (time advances past
// the unbonding period now and then) and after every step an INDEPENDENT enumeration of the primary records checks:
//   delegator_shares_sum_to_validator_total, validator_shares_sum_to_asset_total, no_negative_shares, shares_reset_when_nothing_staked (C03)
//   custody_equals_staked_plus_pending (C01: bank balance of the module = asset total + all pending unbonding entries)
//   user_balances_change_only_by_deposits_and_matured_unbondings, matured_unbondings_are_removed (C02: paid once, exactly, to the owner, at CompleteUnbondings)
//   slashed_validators_pending_entries_lose_exactly_the_fraction, other_pending_entries_untouched_by_a_slash, slash_keeps_the_pending_entries (C07;
//        regime "@shared_bucket" when the entry shares its (completion, delegator) bucket with other entries: the recorded bucket-wide-slash finding)
// Facts are qualified by the same regimes as the positions check ("", @18dec, @after_full_slash, @zero_valued_validator); the share-sum
// fact also uses "@rounder_dust" when, in the plain regime, the two sides differ by less than the 0.01 Rounder.
// This is a bounded check, never counted as proved. Run by `gvc check C01|C02|C03 --tier thorough`.

import (
	"fmt"
	"math/rand"
	"os"
	"strconv"
	"testing"
	"time"

	"cosmossdk.io/math"
	sdk "github.com/cosmos/cosmos-sdk/types"
	teststaking "github.com/cosmos/cosmos-sdk/x/staking/testutil"
	"github.com/stretchr/testify/require"

	test_helpers "github.com/terra-money/alliance/app"
	"github.com/terra-money/alliance/x/alliance/types"
)

func TestBoundedLedger(t *testing.T) {
	failed := map[string]bool{}
	regime := ""
	fact := func(name, format string, args ...interface{}) {
		name += regime
		if !failed[name] {
			fmt.Printf("BOUNDED-FACT-FAILED %s :: %s\n", name, fmt.Sprintf(format, args...))
		}
		failed[name] = true
	}
	seed := int64(1)
	if s, err := strconv.Atoi(os.Getenv("VERIF_SEED")); err == nil {
		seed = int64(s)
	}
	pow10 := func(n int) math.Int {
		r := math.NewInt(1)
		for i := 0; i < n; i++ {
			r = r.MulRaw(10)
		}
		return r
	}
	magnitudes := []math.Int{math.NewInt(1), math.NewInt(7), pow10(6), pow10(12).AddRaw(7), pow10(18), pow10(24), pow10(30)}
	steps, plainSteps := 0, 0
	for hist := 0; hist < 12; hist++ {
		rng := rand.New(rand.NewSource(seed*7919 + int64(hist)))
		app, ctx := createTestContext(t)
		start := time.Now().UTC()
		ctx = ctx.WithBlockTime(start).WithBlockHeight(1)
		app.AllianceKeeper.InitGenesis(ctx, &types.GenesisState{
			Params: types.DefaultParams(),
			Assets: []types.AllianceAsset{
				types.NewAllianceAsset(AllianceDenom, math.LegacyNewDec(2), math.LegacyNewDec(0), math.LegacyNewDec(100), math.LegacyNewDec(0), start),
				types.NewAllianceAsset(AllianceDenomTwo, math.LegacyNewDec(1), math.LegacyNewDec(0), math.LegacyNewDec(100), math.LegacyNewDec(0), start),
			},
		})
		denoms := []string{AllianceDenom, AllianceDenomTwo}
		nUsers, nVals := 3, 3
		funds := pow10(32)
		addrs := test_helpers.AddTestAddrsIncremental(app, ctx, nUsers+nVals, sdk.NewCoins(sdk.NewCoin(AllianceDenom, funds), sdk.NewCoin(AllianceDenomTwo, funds)))
		pks := test_helpers.CreateTestPubKeys(nVals)
		var vals []sdk.ValAddress
		for i := 0; i < nVals; i++ {
			va := sdk.ValAddress(addrs[i])
			test_helpers.RegisterNewValidator(t, app, ctx, teststaking.NewValidator(t, va, pks[i]))
			vals = append(vals, va)
		}
		users := addrs[nVals:]
		moduleAddr := app.AccountKeeper.GetModuleAddress(types.ModuleName)
		unbondingTime, err := app.StakingKeeper.UnbondingTime(ctx)
		require.NoError(t, err)
		getVal := func(c sdk.Context, va sdk.ValAddress) types.AllianceValidator {
			v, err := app.AllianceKeeper.GetAllianceValidator(c, va)
			require.NoError(t, err)
			return v
		}
		try := func(f func() error) (err error, pan interface{}) {
			defer func() { pan = recover() }()
			err = f()
			return
		}
		// what every user put in / took out so far, per denom (to check C02 on balances)
		net := map[string]map[string]math.Int{}
		for _, u := range users {
			net[u.String()] = map[string]math.Int{AllianceDenom: math.ZeroInt(), AllianceDenomTwo: math.ZeroInt()}
		}
		type pending struct {
			who   string
			denom string
			val   string
			amt   math.Int
			at    time.Time
		}
		fullSlash := false
		now := start
		// directed prelude (every fourth history): one delegator unbonds from two validators in the same block; a later slash of the first one is then a forced step
		forcedSlash := -1
		if hist%4 == 1 {
			pre := ctx.WithBlockHeight(2).WithBlockTime(now)
			for _, vi0 := range []int{0, 1} {
				_, e := app.AllianceKeeper.Delegate(pre, users[0], getVal(pre, vals[vi0]), sdk.NewCoin(AllianceDenom, math.NewInt(1_000_000)))
				require.NoError(t, e)
				net[users[0].String()][AllianceDenom] = net[users[0].String()][AllianceDenom].Sub(math.NewInt(1_000_000))
			}
			for _, vi0 := range []int{0, 1} {
				_, e := app.AllianceKeeper.Undelegate(pre, users[0], getVal(pre, vals[vi0]), sdk.NewCoin(AllianceDenom, math.NewInt(400_000)))
				require.NoError(t, e)
			}
			forcedSlash = 0
		}
		for step := 0; step < 16; step++ {
			steps++
			switch rng.Intn(10) {
			case 0, 1:
				now = now.Add(unbondingTime + time.Second)
			case 2, 3, 4, 5:
				now = now.Add(time.Minute)
			default:
				// same block time: several unbondings of one delegator share a (completion, delegator) bucket
			}
			ctx = ctx.WithBlockHeight(int64(step + 2)).WithBlockTime(now)
			ui, vi, di := rng.Intn(nUsers), rng.Intn(nVals), rng.Intn(2)
			amount := magnitudes[rng.Intn(len(magnitudes))]
			nf := 4
			if hist%2 == 0 {
				amount = magnitudes[rng.Intn(4)]
				nf = 3
			}
			d := denoms[di]
			// snapshots for the C02 / C07 facts
			balBefore := map[string]math.Int{}
			for ui2, u := range users {
				for _, dn := range denoms {
					balBefore[fmt.Sprintf("%d|%s", ui2, dn)] = app.BankKeeper.GetBalance(ctx, u, dn).Amount
				}
			}
			type entrySnap struct {
				t            time.Time
				del, val, dn string
				amt          math.Int
				shared       bool
			}
			var pendBefore []entrySnap
			app.AllianceKeeper.IterateUndelegations(ctx, func(u types.QueuedUndelegation, ct time.Time) bool {
				shared := false
				for _, e := range u.Entries {
					if e.ValidatorAddress != u.Entries[0].ValidatorAddress || e.Balance.Denom != u.Entries[0].Balance.Denom {
						shared = true
					}
				}
				for _, e := range u.Entries {
					pendBefore = append(pendBefore, entrySnap{ct, e.DelegatorAddress, e.ValidatorAddress, e.Balance.Denom, e.Balance.Amount, shared || len(u.Entries) > 1})
				}
				return false
			})
			opKind, opUser, opDenom, opAmount, opVal, opFrac := "", -1, "", math.ZeroInt(), -1, math.LegacyZeroDec()
			cctx, write := ctx.CacheContext()
			desc := ""
			var err error
			var pan interface{}
			op0 := rng.Intn(10)
			if step == 0 && forcedSlash >= 0 {
				op0, vi = 8, forcedSlash
			}
			switch op := op0; {
			case op < 4:
				desc = fmt.Sprintf("history %d step %d: Delegate(user %d, val %d, %s%s)", hist, step, ui, vi, amount, d)
				err, pan = try(func() error {
					_, e := app.AllianceKeeper.Delegate(cctx, users[ui], getVal(cctx, vals[vi]), sdk.NewCoin(d, amount))
					return e
				})
				if err == nil && pan == nil {
					net[users[ui].String()][d] = net[users[ui].String()][d].Sub(amount)
				}
				opKind, opUser, opDenom, opAmount = "delegate", ui, d, amount
			case op < 6:
				del, found := app.AllianceKeeper.GetDelegation(cctx, users[ui], vals[vi], d)
				if !found {
					continue
				}
				asset, _ := app.AllianceKeeper.GetAssetByDenom(cctx, d)
				var bal math.Int
				e0, p0 := try(func() error { bal = types.GetDelegationTokens(del, getVal(cctx, vals[vi]), asset).Amount; return nil })
				if e0 != nil || p0 != nil || !bal.IsPositive() {
					continue
				}
				amt := bal.QuoRaw(2)
				if !amt.IsPositive() {
					amt = bal
				}
				desc = fmt.Sprintf("history %d step %d: Undelegate(user %d, val %d, %s%s)", hist, step, ui, vi, amt, d)
				err, pan = try(func() error {
					_, e := app.AllianceKeeper.Undelegate(cctx, users[ui], getVal(cctx, vals[vi]), sdk.NewCoin(d, amt))
					return e
				})
			case op < 8:
				to := (vi + 1 + rng.Intn(nVals-1)) % nVals
				del, found := app.AllianceKeeper.GetDelegation(cctx, users[ui], vals[vi], d)
				if !found {
					continue
				}
				asset, _ := app.AllianceKeeper.GetAssetByDenom(cctx, d)
				var bal math.Int
				e0, p0 := try(func() error { bal = types.GetDelegationTokens(del, getVal(cctx, vals[vi]), asset).Amount; return nil })
				if e0 != nil || p0 != nil || !bal.IsPositive() {
					continue
				}
				amt := bal.QuoRaw(3).AddRaw(1)
				desc = fmt.Sprintf("history %d step %d: Redelegate(user %d, val %d -> %d, %s%s)", hist, step, ui, vi, to, amt, d)
				err, pan = try(func() error {
					_, e := app.AllianceKeeper.Redelegate(cctx, users[ui], getVal(cctx, vals[vi]), getVal(cctx, vals[to]), sdk.NewCoin(d, amt))
					return e
				})
			case op < 9:
				f := []math.LegacyDec{math.LegacyNewDecWithPrec(1, 4), math.LegacyNewDecWithPrec(5, 2), math.LegacyNewDecWithPrec(5, 1), math.LegacyOneDec()}[rng.Intn(nf)]
				if f.Equal(math.LegacyOneDec()) {
					fullSlash = true
				}
				desc = fmt.Sprintf("history %d step %d: SlashValidator(val %d, %s)", hist, step, vi, f)
				opKind, opVal, opFrac = "slash", vi, f
				err, pan = try(func() error { return app.AllianceKeeper.SlashValidator(cctx, vals[vi], f) })
			default:
				desc = fmt.Sprintf("history %d step %d: CompleteUnbondings at %s", hist, step, now.Format(time.RFC3339))
				opKind = "complete"
				err, pan = try(func() error { return app.AllianceKeeper.CompleteUnbondings(cctx) })
			}
			if pan != nil || err != nil {
				continue // rejected or panicking operations are the subject of the positions check, not of this one
			}
			write()
			// regime of the state
			big, zeroVal := false, false
			for _, dn := range denoms {
				a, _ := app.AllianceKeeper.GetAssetByDenom(ctx, dn)
				if a.TotalTokens.GTE(pow10(15)) {
					big = true
				}
				for _, va := range vals {
					v := getVal(ctx, va)
					if !v.TotalDelegationSharesWithDenom(dn).TruncateInt().IsZero() && v.TotalTokensWithAsset(a).IsZero() {
						zeroVal = true
					}
				}
			}
			switch {
			case zeroVal:
				regime = "@zero_valued_validator"
			case fullSlash:
				regime = "@after_full_slash"
			case big || amount.GTE(pow10(15)):
				regime = "@18dec"
			default:
				regime = ""
				plainSteps++
			}
			// C02: user balances change only by what the user deposits and by pending entries that matured (paid once, exactly, to their owner)
			{
				want := map[string]math.Int{}
				for k, v := range balBefore {
					want[k] = v
				}
				if opKind == "delegate" {
					k := fmt.Sprintf("%d|%s", opUser, opDenom)
					want[k] = want[k].Sub(opAmount)
				}
				if opKind == "complete" {
					for _, e := range pendBefore {
						if e.t.Before(now) {
							for ui2, u := range users {
								if u.String() == e.del {
									k := fmt.Sprintf("%d|%s", ui2, e.dn)
									want[k] = want[k].Add(e.amt)
								}
							}
						}
					}
				}
				for ui2, u := range users {
					for _, dn := range denoms {
						k := fmt.Sprintf("%d|%s", ui2, dn)
						if got := app.BankKeeper.GetBalance(ctx, u, dn).Amount; !got.Equal(want[k]) {
							fact("user_balances_change_only_by_deposits_and_matured_unbondings", "%s: user %d %s balance is %s, expected %s (was %s)", desc, ui2, dn, got, want[k], balBefore[k])
						}
					}
				}
				var pendAfter []entrySnap
				app.AllianceKeeper.IterateUndelegations(ctx, func(u types.QueuedUndelegation, ct time.Time) bool {
					for _, e := range u.Entries {
						pendAfter = append(pendAfter, entrySnap{ct, e.DelegatorAddress, e.ValidatorAddress, e.Balance.Denom, e.Balance.Amount, false})
					}
					return false
				})
				if opKind == "complete" {
					for _, e := range pendAfter {
						if e.t.Before(now) {
							fact("matured_unbondings_are_removed", "%s: an entry of %s%s completing at %s is still queued", desc, e.amt, e.dn, e.t.Format(time.RFC3339))
						}
					}
				}
				// C07: a slash reduces exactly the pending entries of the slashed validator, by floor(f x amount), and no other entry
				if opKind == "slash" {
					// match entries by position: the queue keeps order and identity (the contracts prove entries are only reduced)
					if len(pendAfter) == len(pendBefore) {
						for i, e := range pendBefore {
							a := pendAfter[i]
							saved := regime
							if e.shared {
								regime = "@shared_bucket" // the entry shares its (completion, delegator) bucket with other entries: recorded C07 finding
							}
							mine := e.val == vals[opVal].String() && !e.t.Before(now)
							wantAmt := e.amt
							if mine {
								wantAmt = e.amt.Sub(opFrac.MulInt(e.amt).TruncateInt())
							}
							if !a.amt.Equal(wantAmt) {
								if mine {
									fact("slashed_validators_pending_entries_lose_exactly_the_fraction", "%s: entry of %s%s (validator %s) became %s, expected %s", desc, e.amt, e.dn, e.val, a.amt, wantAmt)
								} else {
									fact("other_pending_entries_untouched_by_a_slash", "%s: entry of %s%s of validator %s (not the slashed one, or matured) became %s", desc, e.amt, e.dn, e.val, a.amt)
								}
							}
							regime = saved
						}
					} else {
						fact("slash_keeps_the_pending_entries", "%s: %d pending entries before, %d after", desc, len(pendBefore), len(pendAfter))
					}
				}
			}
			// independent enumeration
			delSum := map[string]math.LegacyDec{}
			require.NoError(t, app.AllianceKeeper.IterateDelegations(ctx, func(dl types.Delegation) bool {
				k := dl.ValidatorAddress + "|" + dl.Denom
				if _, ok := delSum[k]; !ok {
					delSum[k] = math.LegacyZeroDec()
				}
				delSum[k] = delSum[k].Add(dl.Shares)
				if dl.Shares.IsNegative() {
					fact("no_negative_shares", "%s: delegation %s/%s/%s has shares %s", desc, dl.DelegatorAddress, dl.ValidatorAddress, dl.Denom, dl.Shares)
				}
				return false
			}))
			valSum := map[string]math.LegacyDec{}
			for _, va := range vals {
				v := getVal(ctx, va)
				for _, dn := range denoms {
					tds := v.TotalDelegationSharesWithDenom(dn)
					got, ok := delSum[va.String()+"|"+dn]
					if !ok {
						got = math.LegacyZeroDec()
					}
					if !got.Equal(tds) {
						fact("delegator_shares_sum_to_validator_total", "%s: validator %d %s: records sum to %s, recorded total %s", desc, indexOfVal(vals, va), dn, got, tds)
					}
					vs := v.ValidatorSharesWithDenom(dn)
					if vs.IsNegative() || tds.IsNegative() {
						fact("no_negative_shares", "%s: validator %d %s: validator shares %s, delegator total %s", desc, indexOfVal(vals, va), dn, vs, tds)
					}
					if _, ok := valSum[dn]; !ok {
						valSum[dn] = math.LegacyZeroDec()
					}
					valSum[dn] = valSum[dn].Add(vs)
				}
			}
			pendingSum := map[string]math.Int{AllianceDenom: math.ZeroInt(), AllianceDenomTwo: math.ZeroInt()}
			app.AllianceKeeper.IterateUndelegations(ctx, func(u types.QueuedUndelegation, _ time.Time) bool {
				for _, e := range u.Entries {
					pendingSum[e.Balance.Denom] = pendingSum[e.Balance.Denom].Add(e.Balance.Amount)
				}
				return false
			})
			for _, dn := range denoms {
				a, _ := app.AllianceKeeper.GetAssetByDenom(ctx, dn)
				if !valSum[dn].Equal(a.TotalValidatorShares) {
					saved := regime
					if regime == "" && valSum[dn].Sub(a.TotalValidatorShares).Abs().LT(types.Rounder) {
						regime = "@rounder_dust" // the two sides differ by less than the 0.01 Rounder the subtraction clamps with
					}
					fact("validator_shares_sum_to_asset_total", "%s: %s: validators sum to %s, asset records %s", desc, dn, valSum[dn], a.TotalValidatorShares)
					regime = saved
				}
				if a.TotalTokens.IsZero() && (!a.TotalValidatorShares.IsZero() || !valSum[dn].IsZero()) {
					fact("shares_reset_when_nothing_staked", "%s: %s: staked total 0 but share total %s, validators hold %s", desc, dn, a.TotalValidatorShares, valSum[dn])
				}
				custody := app.BankKeeper.GetBalance(ctx, moduleAddr, dn).Amount
				if !custody.Equal(a.TotalTokens.Add(pendingSum[dn])) {
					fact("custody_equals_staked_plus_pending", "%s: %s: module holds %s, staked total %s + pending %s", desc, dn, custody, a.TotalTokens, pendingSum[dn])
				}
			}
			_ = pending{}
		}
	}
	fmt.Printf("BOUNDED-SUMMARY scenarios=%d plain_regime_steps=%d seed=%d failed_facts=%d\n", steps, plainSteps, seed, len(failed))
	if len(failed) > 0 {
		t.Fail()
	}
}

func indexOfVal(vals []sdk.ValAddress, v sdk.ValAddress) int {
	for i, x := range vals {
		if x.Equals(v) {
			return i
		}
	}
	return -1
}
