package tests_test

// Bounded stand-in for the statements of C09 / C14 / C15 that are compositions OVER BLOCKS of the per-function contracts: blocks arrive on a
// seeded irregular schedule (same second, sub-interval, multi-interval gaps); deposits and redelegations happen inside blocks; every block ends
// with the module's real EndBlocker. Facts:
//   deposit_not_charged_for_earlier_intervals (C09) - at the end of the block in which it was deposited a position is worth at least deposit x (1 - r)
//                                                     (it may be charged the interval in progress, never whole intervals that elapsed before it existed)
//   staked_total_follows_compounding (C09)          - with no deposits in between, a deduction takes the staked total from T to T x (1-r)^n for the n whole
//                                                     intervals on the take-rate clock, within 1 base unit + 1e-12 relative; the clock never passes the block time
//   weight_follows_the_decay_schedule (C14)         - the decaying asset's weight is clamp(w0 x rate^N) for the N whole change intervals elapsed, stays in range,
//                                                     and its clock never passes the block time
//   onward_hop_blocked_while_pending, restriction_lifted_after_maturity, pending_redelegation_removed_at_first_block_after_maturity (C15)
// The first fact carries the regime "@block_gap_of_several_intervals" when the take-rate clock lags the block time by two or more whole intervals.
// This is a bounded check, never counted as proved. Run by `gvc check C09|C14|C15 --tier thorough`.

import (
	"fmt"
	"math/rand"
	"os"
	"strconv"
	"testing"
	"time"

	"cosmossdk.io/math"
	sdk "github.com/cosmos/cosmos-sdk/types"
	teststaking "github.com/cosmos/cosmos-sdk/x/staking/testutil"
	"github.com/stretchr/testify/require"

	test_helpers "github.com/terra-money/alliance/app"
	"github.com/terra-money/alliance/x/alliance"
	"github.com/terra-money/alliance/x/alliance/types"
)

func TestBoundedSchedule(t *testing.T) {
	failed := map[string]bool{}
	fact := func(name, format string, args ...interface{}) {
		if !failed[name] {
			fmt.Printf("BOUNDED-FACT-FAILED %s :: %s\n", name, fmt.Sprintf(format, args...))
		}
		failed[name] = true
	}
	seed := int64(1)
	if s, err := strconv.Atoi(os.Getenv("VERIF_SEED")); err == nil {
		seed = int64(s)
	}
	steps := 0
	for hist := 0; hist < 10; hist++ {
		rng := rand.New(rand.NewSource(seed*32452843 + int64(hist)))
		app, ctx := createTestContext(t)
		start := time.Now().UTC().Truncate(time.Second)
		ctx = ctx.WithBlockTime(start).WithBlockHeight(1)
		interval := 5 * time.Minute
		rate := []math.LegacyDec{math.LegacyMustNewDecFromStr("0.1"), math.LegacyMustNewDecFromStr("0.01"), math.LegacyMustNewDecFromStr("0.5")}[rng.Intn(3)]
		decayRate := math.LegacyMustNewDecFromStr("0.9")
		decayInterval := 10 * time.Minute
		w0 := math.LegacyNewDec(2)
		wMin, wMax := math.LegacyMustNewDecFromStr("0.5"), math.LegacyNewDec(5)
		taker := types.NewAllianceAsset(AllianceDenom, math.LegacyNewDec(1), math.LegacyNewDec(0), math.LegacyNewDec(5), rate, start)
		decayer := types.NewAllianceAsset(AllianceDenomTwo, w0, wMin, wMax, math.LegacyNewDec(0), start)
		decayer.RewardChangeRate = decayRate
		decayer.RewardChangeInterval = decayInterval
		decayer.LastRewardChangeTime = start
		app.AllianceKeeper.InitGenesis(ctx, &types.GenesisState{
			Params: types.Params{RewardDelayTime: time.Hour, TakeRateClaimInterval: interval, LastTakeRateClaimTime: start},
			Assets: []types.AllianceAsset{taker, decayer},
		})
		nUsers, nVals := 3, 3
		addrs := test_helpers.AddTestAddrsIncremental(app, ctx, nUsers+nVals, sdk.NewCoins(sdk.NewCoin(AllianceDenom, math.NewInt(1_000_000_000_000_000)), sdk.NewCoin(AllianceDenomTwo, math.NewInt(1_000_000_000_000_000))))
		pks := test_helpers.CreateTestPubKeys(nVals)
		var vals []sdk.ValAddress
		for i := 0; i < nVals; i++ {
			va := sdk.ValAddress(addrs[i])
			test_helpers.RegisterNewValidator(t, app, ctx, teststaking.NewValidator(t, va, pks[i]))
			vals = append(vals, va)
		}
		users := addrs[nVals:]
		unbondingTime, err := app.StakingKeeper.UnbondingTime(ctx)
		require.NoError(t, err)
		getVal := func(c sdk.Context, va sdk.ValAddress) types.AllianceValidator {
			v, err := app.AllianceKeeper.GetAllianceValidator(c, va)
			require.NoError(t, err)
			return v
		}
		value := func(c sdk.Context, u sdk.AccAddress, va sdk.ValAddress, dn string) math.Int {
			d, found := app.AllianceKeeper.GetDelegation(c, u, va, dn)
			if !found {
				return math.ZeroInt()
			}
			a, _ := app.AllianceKeeper.GetAssetByDenom(c, dn)
			return types.GetDelegationTokens(d, getVal(c, va), a).Amount
		}
		// an initial stake so that totals are never dust
		_, err = app.AllianceKeeper.Delegate(ctx, users[0], getVal(ctx, vals[0]), sdk.NewCoin(AllianceDenom, math.NewInt(1_000_000_000)))
		require.NoError(t, err)
		_, err = app.AllianceKeeper.Delegate(ctx, users[0], getVal(ctx, vals[0]), sdk.NewCoin(AllianceDenomTwo, math.NewInt(1_000_000_000)))
		require.NoError(t, err)
		require.NoError(t, alliance.EndBlocker(ctx, app.AllianceKeeper))
		type pendingRedel struct {
			user, dst int
			dn        string
			matures   time.Time
		}
		var pendings []pendingRedel
		now := start
		for step := 0; step < 18; step++ {
			steps++
			gap := []time.Duration{0, time.Second, time.Minute, 4*time.Minute + 59*time.Second, 7 * time.Minute, 26 * time.Minute, unbondingTime + time.Second}[rng.Intn(7)]
			now = now.Add(gap)
			ctx = ctx.WithBlockHeight(int64(step + 2)).WithBlockTime(now)
			before, _ := app.AllianceKeeper.GetAssetByDenom(ctx, AllianceDenom)
			paramsBefore := app.AllianceKeeper.GetParams(ctx)
			// transactions of the block
			type dep struct {
				u, v int
				amt  math.Int
			}
			var deposits []dep
			valueBefore := map[string]math.Int{}
			nTx := rng.Intn(3)
			for i := 0; i < nTx; i++ {
				ui, vi := rng.Intn(nUsers), rng.Intn(nVals)
				switch rng.Intn(4) {
				case 0, 1:
					amt := []math.Int{math.NewInt(1_000), math.NewInt(1_000_000), math.NewInt(777_777_777)}[rng.Intn(3)]
					k := fmt.Sprintf("%d|%d", ui, vi)
					if _, ok := valueBefore[k]; !ok {
						valueBefore[k] = value(ctx, users[ui], vals[vi], AllianceDenom)
					}
					cc, write := ctx.CacheContext()
					if _, e := app.AllianceKeeper.Delegate(cc, users[ui], getVal(cc, vals[vi]), sdk.NewCoin(AllianceDenom, amt)); e == nil {
						write()
						deposits = append(deposits, dep{ui, vi, amt})
					}
				case 2:
					cc, write := ctx.CacheContext()
					if _, e := app.AllianceKeeper.Delegate(cc, users[ui], getVal(cc, vals[vi]), sdk.NewCoin(AllianceDenomTwo, math.NewInt(1_000_000))); e == nil {
						write()
					}
				default:
					to := (vi + 1 + rng.Intn(nVals-1)) % nVals
					// C15: an onward hop out of a destination with a pending entry must be refused, and allowed once none is pending
					pendingInto := false
					for _, p := range pendings {
						if p.user == ui && p.dst == vi && p.dn == AllianceDenomTwo {
							pendingInto = true
						}
					}
					cc, write := ctx.CacheContext()
					_, e := app.AllianceKeeper.Redelegate(cc, users[ui], getVal(cc, vals[vi]), getVal(cc, vals[to]), sdk.NewCoin(AllianceDenomTwo, math.NewInt(1_000)))
					if pendingInto && e == nil {
						fact("onward_hop_blocked_while_pending", "history %d step %d: user %d redelegated out of validator %d at %s although an entry into it is pending", hist, step, ui, vi, now.Sub(start))
					}
					if !pendingInto && e != nil && value(ctx, users[ui], vals[vi], AllianceDenomTwo).GTE(math.NewInt(1_001)) {
						fact("restriction_lifted_after_maturity", "history %d step %d: user %d cannot redelegate out of validator %d at %s although nothing into it is pending: %v", hist, step, ui, vi, now.Sub(start), e)
					}
					if e == nil {
						write()
						pendings = append(pendings, pendingRedel{ui, to, AllianceDenomTwo, now.Add(unbondingTime)})
					}
				}
			}
			totalBeforeHook, _ := app.AllianceKeeper.GetAssetByDenom(ctx, AllianceDenom)
			require.NoError(t, alliance.EndBlocker(ctx, app.AllianceKeeper))
			after, _ := app.AllianceKeeper.GetAssetByDenom(ctx, AllianceDenom)
			paramsAfter := app.AllianceKeeper.GetParams(ctx)
			// C15 bookkeeping: entries strictly past maturity are gone after this end of block
			var still []pendingRedel
			for _, p := range pendings {
				if p.matures.Before(now) {
					if app.AllianceKeeper.HasRedelegation(ctx, users[p.user], vals[p.dst], p.dn) {
						// another, younger entry into the same destination may still be pending
						younger := false
						for _, q := range pendings {
							if q.user == p.user && q.dst == p.dst && q.dn == p.dn && !q.matures.Before(now) {
								younger = true
							}
						}
						if !younger {
							fact("pending_redelegation_removed_at_first_block_after_maturity", "history %d step %d: entry of user %d into validator %d matured at %s, block time %s, still pending", hist, step, p.user, p.dst, p.matures.Sub(start), now.Sub(start))
						}
					}
				} else {
					still = append(still, p)
				}
			}
			pendings = still
			// C09 clock and compounding
			if paramsAfter.LastTakeRateClaimTime.After(now) {
				fact("staked_total_follows_compounding", "history %d step %d: take-rate clock %s is past the block time %s", hist, step, paramsAfter.LastTakeRateClaimTime.Sub(start), now.Sub(start))
			}
			if len(deposits) == 0 && before.TotalTokens.Equal(totalBeforeHook.TotalTokens) {
				n := int64(0)
				if now.After(paramsBefore.LastTakeRateClaimTime.Add(interval)) {
					n = int64(now.Sub(paramsBefore.LastTakeRateClaimTime) / interval)
				}
				want := math.LegacyNewDecFromInt(before.TotalTokens)
				for i := int64(0); i < n; i++ {
					want = want.Mul(math.LegacyOneDec().Sub(rate))
				}
				diff := math.LegacyNewDecFromInt(after.TotalTokens).Sub(want).Abs()
				if want.LTE(math.LegacyOneDec()) {
					// the compounded total would fall to (below) one base unit: "a rate below one never drives a total to zero" - the code leaves it untouched
					if !after.TotalTokens.IsPositive() {
						fact("staked_total_follows_compounding", "history %d step %d: total went %s -> %s (driven to zero) over %d intervals", hist, step, before.TotalTokens, after.TotalTokens, n)
					}
				} else if diff.GT(math.LegacyNewDec(2).Add(want.Mul(math.LegacyMustNewDecFromStr("0.000000000001")))) {
					fact("staked_total_follows_compounding", "history %d step %d: total went %s -> %s over %d whole intervals at rate %s, expected about %s", hist, step, before.TotalTokens, after.TotalTokens, n, rate, want)
				}
			}
			// C09 not retroactive
			for _, d := range deposits {
				k := fmt.Sprintf("%d|%d", d.u, d.v)
				floor := math.LegacyNewDecFromInt(valueBefore[k].Add(d.amt)).Mul(math.LegacyOneDec().Sub(rate)).TruncateInt().SubRaw(2)
				// what the position held before the deposit may legitimately be charged for all whole intervals: only the deposit itself is bounded below
				floor = math.LegacyNewDecFromInt(d.amt).Mul(math.LegacyOneDec().Sub(rate)).TruncateInt().SubRaw(2)
				got := value(ctx, users[d.u], vals[d.v], AllianceDenom)
				// lower bound on the position: what it held before, charged by whatever the hook charged the whole asset, plus the floor of the deposit
				ratio := math.LegacyOneDec()
				if totalBeforeHook.TotalTokens.IsPositive() {
					ratio = math.LegacyNewDecFromInt(after.TotalTokens).Quo(math.LegacyNewDecFromInt(totalBeforeHook.TotalTokens))
				}
				oldPart := math.LegacyNewDecFromInt(valueBefore[k]).Mul(ratio).TruncateInt()
				if got.LT(oldPart.Add(floor).SubRaw(2)) {
					name := "deposit_not_charged_for_earlier_intervals"
					if now.Sub(paramsBefore.LastTakeRateClaimTime) >= 2*interval {
						name += "@block_gap_of_several_intervals" // the take-rate clock lags the block time by two or more whole intervals (irregular block schedule)
					}
					fact(name, "history %d step %d: user %d deposited %s into validator %d in the block at %s (take-rate clock was at %s, rate %s); at the end of that block the position is worth %s, less than its earlier %s (after the deduction) plus the deposit charged for one interval (%s)", hist, step, d.u, d.amt, d.v, now.Sub(start), paramsBefore.LastTakeRateClaimTime.Sub(start), rate, got, oldPart, floor)
				}
			}
			// C14 decay schedule
			dec, _ := app.AllianceKeeper.GetAssetByDenom(ctx, AllianceDenomTwo)
			nInt := int64(now.Sub(start) / decayInterval)
			wantW := w0
			for i := int64(0); i < nInt; i++ {
				wantW = wantW.Mul(decayRate)
				if wantW.LT(wMin) {
					wantW = wMin
				}
			}
			if dec.RewardWeight.Sub(wantW).Abs().GT(math.LegacyMustNewDecFromStr("0.000000000001")) || dec.RewardWeight.LT(wMin) || dec.RewardWeight.GT(wMax) || dec.LastRewardChangeTime.After(now) {
				fact("weight_follows_the_decay_schedule", "history %d step %d: at %s (%d whole intervals) the weight is %s, expected %s; clock %s", hist, step, now.Sub(start), nInt, dec.RewardWeight, wantW, dec.LastRewardChangeTime.Sub(start))
			}
		}
	}
	fmt.Printf("BOUNDED-SUMMARY scenarios=%d seed=%d failed_facts=%d\n", steps, seed, len(failed))
	if len(failed) > 0 {
		t.Fail()
	}
}
