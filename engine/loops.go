package main

import (
	"os"
	"fmt"
	"strings"
	"go/types"
	"sort"

	"golang.org/x/tools/go/ssa"
)

type Loop struct {
	Head    *ssa.BasicBlock
	Body    map[int]bool // block indices, including the head
	Ordinal int          // 1-based, in order of head block index
}

type LoopInfo struct {
	heads map[int]*Loop
}

var loopCache = map[*ssa.Function]*LoopInfo{}

func loopInfoOf(fn *ssa.Function) *LoopInfo {
	if li, ok := loopCache[fn]; ok {
		return li
	}
	li := &LoopInfo{heads: map[int]*Loop{}}
	for _, b := range fn.Blocks {
		for _, s := range b.Succs {
			if s.Dominates(b) {
				l := li.heads[s.Index]
				if l == nil {
					l = &Loop{Head: s, Body: map[int]bool{s.Index: true}}
					li.heads[s.Index] = l
				}
				// nodes that reach b without passing through s
				stack := []*ssa.BasicBlock{b}
				for len(stack) > 0 {
					x := stack[len(stack)-1]
					stack = stack[:len(stack)-1]
					if l.Body[x.Index] {
						continue
					}
					l.Body[x.Index] = true
					stack = append(stack, x.Preds...)
				}
			}
		}
	}
	var idx []int
	for k := range li.heads {
		idx = append(idx, k)
	}
	sort.Ints(idx)
	for i, k := range idx {
		li.heads[k].Ordinal = i + 1
	}
	if len(idx) == 0 {
		li = nil
	}
	loopCache[fn] = li
	return li
}

// WriteLog records what a probe execution of a loop body writes.
type WriteLog struct {
	Cells map[int]bool
	G     map[string]bool
}

type StopAt struct {
	Depth int
	Loop  *Loop
}

func (E *Engine) loopSpec(m *Machine, f *Frame, l *Loop) *LoopSpec {
	if m.Top == nil || m.Top.C == nil {
		return nil
	}
	key := fmt.Sprintf("#%d", l.Ordinal)
	if len(m.Frames) > 1 || f.Fn != m.Top.Fn {
		key = FuncName(f.Fn) + key
		if f.Fn.Parent() != nil {
			nm := f.Fn.Name()
			if i := strings.LastIndex(nm, "$"); i >= 0 {
				nm = nm[i+1:]
			}
			key = FuncName(f.Fn.Parent()) + "$" + nm + fmt.Sprintf("#%d", l.Ordinal)
		}
	}
	return m.Top.C.Loops[key]
}

// atLoopHead implements the loop rule. Returns true when the path ends here.
func (E *Engine) atLoopHead(m *Machine, f *Frame, l *Loop, from, head *ssa.BasicBlock, work *[]*Machine, onEnd func(pathEnd)) bool {
	back := l.Body[from.Index] && from.Index != head.Index || (from.Index == head.Index)
	if !l.Body[from.Index] {
		back = false
	}
	// probe stop
	if m.Stop != nil && len(m.Frames) == m.Stop.Depth && m.Stop.Loop == l && back {
		m.Dead = true
		return true
	}
	spec := E.loopSpec(m, f, l)
	depth := len(m.Frames)
	ctxKey := head.Index
	if spec == nil || len(spec.Invariants) == 0 {
		// unrolling: bounded, each extra iteration must be feasible
		ctx := f.Loops[ctxKey]
		if ctx == nil || !back {
			ctx = &LoopCtx{Head: head}
			f.Loops[ctxKey] = ctx
		}
		if back {
			ctx.Unrolls++
			limit := 3
			if spec != nil && spec.Unroll > 0 {
				limit = spec.Unroll
			}
			if ctx.Unrolls > limit {
				if E.feasible(m) {
					panic(unsupported(fmt.Sprintf("loop %s#%d needs an invariant (more than %d iterations feasible)", FuncName(f.Fn), l.Ordinal, limit)))
				}
				m.Dead = true
				return true
			}
			if !E.feasible(m) {
				m.Dead = true
				return true
			}
		}
		m.enterBlock(f, from, head)
		return false
	}
	lname := fmt.Sprintf("%s#%d", FuncName(f.Fn), l.Ordinal)
	for _, inv := range spec.Invariants {
		if len(inv.Props) == 0 {
			inv.Props = allProps(m.Top.C)
		}
	}
	m.enterBlock(f, from, head)
	if back {
		// preservation
		ctx := f.Loops[ctxKey]
		// soundness guard: everything the iteration wrote must have been havocked at the head
		if ctx != nil && ctx.HeadHeapSnap != nil && E.probing == 0 {
			for c, hv := range ctx.HeadHeapSnap {
				if cur, ok := m.Heap[c]; ok && cur != hv && !ctx.Havocked.Cells[c] {
					if !E.feasible(m) {
						m.Dead = true
						return true
					}
					panic(unsupported(fmt.Sprintf("loop %s: cell %d written in an iteration but not havocked at the head (probe missed a write): head=%s now=%s", lname0(f, l), c, describe(hv), describe(cur))))
				}
			}
			for g, hv := range ctx.HeadGSnap {
				if cur, ok := m.G[g]; ok && cur != hv && !ctx.Havocked.G[g] {
					if !E.feasible(m) {
						m.Dead = true
						return true
					}
					panic(unsupported(fmt.Sprintf("loop %s: state component %s written in an iteration but not havocked at the head", lname0(f, l), g)))
				}
			}
		}
		for _, inv := range spec.Invariants {
			npc := len(m.PC)
			g := E.evalInv(m, f, ctx, spec, inv)
			o := &Obligation{Name: fmt.Sprintf("%s:inv-pres@%s:%s", m.Top.Name, lname, inv.Label), Func: m.Top.Name, Kind: "inv-pres",
				Props: inv.Props, Reading: inv.Reading, Goal: g, Src: inv.Src}
			E.addObl(m, o)
			if inv.HasUses && E.probing == 0 {
				// hide the invariants of this loop that the proof does not need
				keep := map[string]bool{lname + ":" + inv.Label: true}
				for _, u := range inv.Uses {
					keep[lname+":"+u] = true
				}
				var hy []*Term
				for i, h := range o.Hyps {
					if tag, ok := m.InvTag[h]; ok && strings.HasPrefix(tag, lname+":") && !keep[tag] && i < npc {
						continue
					}
					hy = append(hy, h)
				}
				o.Hyps = hy
			}
		}
		m.Dead = true
		return true
	}
	// entry: establish
	if m.Top.C.PrunePaths && E.probing == 0 && !E.feasibleGround(m) {
		m.Dead = true
		return true
	}
	ctx := &LoopCtx{Head: head, Spec: spec, Entered: true, EntryG: copyG(m.G)}
	ctx.EntryHeap = copyHeap(m.Heap)
	f.Loops[ctxKey] = ctx
	for _, inv := range spec.Invariants {
		g := E.evalInv(m, f, ctx, spec, inv)
		E.addObl(m, &Obligation{Name: fmt.Sprintf("%s:inv-init@%s:%s", m.Top.Name, lname, inv.Label), Func: m.Top.Name, Kind: "inv-init",
			Props: inv.Props, Reading: inv.Reading, Goal: g, Src: inv.Src})
	}
	// probe one iteration to learn what the body writes
	log := &WriteLog{Cells: map[int]bool{}, G: map[string]bool{}}
	{
		mp := m.Clone()
		mp.W = log
		mp.Stop = &StopAt{Depth: depth, Loop: l}
		mp.Probe = true
		saveObl := len(E.Obls)
		E.probing++
		E.Run(mp, func(pe pathEnd) {})
		E.probing--
		E.Obls = E.Obls[:saveObl]
		if os.Getenv("GVC_TRACE") != "" {
			fmt.Fprintf(os.Stderr, "PROBE %s: cells=%v G=%v\n", lname, log.Cells, log.G)
		}
	}
	if m.W != nil {
		for c := range log.Cells {
			m.W.Cells[c] = true
		}
		for g := range log.G {
			m.W.G[g] = true
		}
	}
	// havoc
	maxCell := E.ncellAt(m)
	ctx.MaxCell = maxCell
	for c := range log.Cells {
		if c > maxCell {
			continue
		}
		old, ok := m.Heap[c]
		if !ok {
			continue
		}
		m.Heap[c] = m.havocLike(old, fmt.Sprintf("%s_c%d", sanitize(lname), c))
	}
	for g := range log.G {
		old := m.G[g]
		if old == nil {
			continue
		}
		m.G[g] = E.D.Fresh(sanitize(g)+"_"+sanitize(lname), old.Sort)
		if g == "bank" {
			m.bankNonNeg(m.G[g])
		}
	}
	for _, ins := range head.Instrs {
		ph, ok := ins.(*ssa.Phi)
		if !ok {
			break
		}
		// loop-invariant phis keep their value
		same := true
		for i, e := range ph.Edges {
			if l.Body[head.Preds[i].Index] && e != ssa.Value(ph) {
				same = false
			}
		}
		if same {
			continue
		}
		if _, isPtr := ph.Type().Underlying().(*types.Pointer); isPtr {
			panic(unsupported("pointer-valued loop variable in " + lname))
		}
		name := ph.Comment
		if name == "" {
			name = ph.Name()
		}
		f.Env[ph] = m.symbolicValue(ph.Type(), sanitize(lname)+"_"+name)
	}
	// second probe, from the havocked (symbolic) state: an iteration may write more than the first probe saw from the concrete entry
	// state (e.g. appending a pointer to a symbolic slice flushes the object into the symbolic heap arrays)
	{
		log2 := &WriteLog{Cells: map[int]bool{}, G: map[string]bool{}}
		mp := m.Clone()
		mp.W = log2
		mp.Stop = &StopAt{Depth: depth, Loop: l}
		mp.Probe = true
		saveObl := len(E.Obls)
		E.probing++
		func() {
			defer func() {
				if r := recover(); r != nil {
					if _, isUnsupp := r.(unsupportedErr); !isUnsupp {
						if _, isSpec := r.(specErr); !isSpec {
							panic(r)
						}
					}
				}
			}()
			E.Run(mp, func(pe pathEnd) {})
		}()
		E.probing--
		E.Obls = E.Obls[:saveObl]
		for c := range log2.Cells {
			if log.Cells[c] || c > maxCell {
				continue
			}
			if old, ok := m.Heap[c]; ok {
				m.Heap[c] = m.havocLike(old, fmt.Sprintf("%s_c%d", sanitize(lname), c))
				log.Cells[c] = true
				if m.W != nil {
					m.W.Cells[c] = true
				}
			}
		}
		for g := range log2.G {
			if log.G[g] {
				continue
			}
			if old := m.G[g]; old != nil {
				m.G[g] = E.D.Fresh(sanitize(g)+"_"+sanitize(lname), old.Sort)
				if g == "bank" {
					m.bankNonNeg(m.G[g])
				}
			}
			log.G[g] = true
			if m.W != nil {
				m.W.G[g] = true
			}
		}
	}
	ctx.Havocked = log
	ctx.HeadHeapSnap = copyHeap(m.Heap)
	ctx.HeadGSnap = copyG(m.G)
	for _, inv := range spec.Invariants {
		g := E.evalInv(m, f, ctx, spec, inv)
		m.AssumeT(g)
		if m.InvTag == nil {
			m.InvTag = map[*Term]string{}
		}
		m.InvTag[g] = lname + ":" + inv.Label
	}
	m.note("loop " + lname)
	return false
}

func (E *Engine) ncellAt(m *Machine) int { return E.ncell }

func copyG(g map[string]*Term) map[string]*Term {
	o := make(map[string]*Term, len(g))
	for k, v := range g {
		o[k] = v
	}
	return o
}
func copyHeap(h map[int]Val) map[int]Val {
	o := make(map[int]Val, len(h))
	for k, v := range h {
		o[k] = v
	}
	return o
}

// havocLike replaces every scalar leaf of v by a fresh symbol; pointers, closures and opaque values stay.
func (m *Machine) havocLike(v Val, hint string) Val {
	switch x := v.(type) {
	case *Term:
		return m.E.D.Fresh(hint, x.Sort)
	case *StructV:
		n := &StructV{Typ: x.Typ, F: make([]Val, len(x.F))}
		for i, f := range x.F {
			n.F[i] = m.havocLike(f, fmt.Sprintf("%s_%d", hint, i))
		}
		return n
	case *ArrV:
		n := &ArrV{Elems: make([]Val, len(x.Elems))}
		for i, f := range x.Elems {
			n.Elems[i] = m.havocLike(f, fmt.Sprintf("%s_%d", hint, i))
		}
		return n
	case *CoinsV:
		return m.freshCoins(x.Dec, hint, true)
	case *SeqV:
		n := &SeqV{Elem: x.Elem, Len: m.E.D.Fresh(hint+"_len", SInt), IsNil: nil}
		m.AssumeT(Ge(n.Len, IntLit(0)))
		src := x
		if src.Leaves == nil {
			src = m.concToSym(x)
		}
		for _, a := range src.Leaves {
			n.Leaves = append(n.Leaves, m.E.D.Fresh(hint+"_arr", a.Sort))
		}
		return n
	case *IterState:
		n := *x
		n.Pos = m.E.D.Fresh(hint+"_pos", SInt)
		return &n
	case *MapState:
		n := &MapState{KeyT: x.KeyT, ElemT: x.ElemT, Has: m.E.D.Fresh(hint+"_has", x.Has.Sort)}
		for _, a := range x.M {
			n.M = append(n.M, m.E.D.Fresh(hint+"_m", a.Sort))
		}
		return n
	}
	return v
}

func (E *Engine) evalInv(m *Machine, f *Frame, ctx *LoopCtx, spec *LoopSpec, inv *Clause) *Term {
	ev := &Evaluator{E: E, M: m, Frame: f, Loop: ctx, Old: m.Entry}
	if m.Top != nil && m.Top.Lets != nil {
		ev.Lets = map[string]Val{}
		for k, v := range m.Top.Lets {
			ev.Lets[k] = v
		}
	}
	for _, ld := range spec.Lets {
		v := ev.Eval(ld.Expr)
		if ev.Lets == nil {
			ev.Lets = map[string]Val{}
		}
		ev.Lets[ld.Name] = v
	}
	t := ev.EvalBool(inv.Expr, inv.Src)
	return t
}

// feasible asks the solver whether the current path condition is satisfiable (used for unrolled loops).
func (E *Engine) feasible(m *Machine) bool {
	q := E.buildQuery(ReadU, m.PC, False)
	r := Solve(q, 3, 1, m.Z3Ext, false)
	return r.Status != "unsat"
}

func lname0(f *Frame, l *Loop) string { return fmt.Sprintf("%s#%d", FuncName(f.Fn), l.Ordinal) }

// feasibleGround decides feasibility of the ground (quantifier-free) part of the path condition only: unsat there means the path is
// infeasible (sound to drop); anything else keeps the path. Quantifier-free queries are decided in milliseconds either way.
func (E *Engine) feasibleGround(m *Machine) bool {
	q := E.buildQuery(ReadU, m.PC, False)
	var kept []string
	for _, ln := range strings.Split(q, "\n") {
		if strings.HasPrefix(ln, "(assert") && (strings.Contains(ln, "(forall") || strings.Contains(ln, "(exists")) {
			continue
		}
		kept = append(kept, ln)
	}
	r := Solve(strings.Join(kept, "\n"), 2, 1, true, false)
	return r.Status != "unsat"
}
