package main

import (
	"fmt"
	"strings"

	"golang.org/x/tools/go/ssa"
)

// Algebraic view of the store keys (DESIGN.md 3.5): one injective constructor per key builder of
// x/alliance/types/keys.go, families pairwise disjoint (tag), parsers as projections, prefix and range
// scans as predicates on the components. These facts are ASSUMED here (assumption A-KEYS); the byte layer
// (bytelayer.go, `gvc keys`) is what checks them against the real builders/parsers.

type keyCons struct {
	Fn   string // FuncName of the builder ("" for constants)
	Cons string
	Tag  int // family tag; 0 = prefix constructor (not a full key)
	Args []Sort
}

var keyFamilies = []keyCons{
	{"types.GetAssetKey", "kAsset", 1, []Sort{SStr}},
	{"types.GetAllianceValidatorInfoKey", "kValInfo", 2, []Sort{SBytes}},
	{"types.GetRewardWeightChangeSnapshotKey", "kSnap", 4, []Sort{SStr, SBytes, SInt}},
	{"types.GetDelegationKey", "kDel", 5, []Sort{SBytes, SBytes, SStr}},
	{"types.GetRedelegationKey", "kRedel", 6, []Sort{SBytes, SStr, SBytes, SInt}},
	{"types.GetRedelegationQueueKey", "kRedelQ", 7, []Sort{SInt}},
	{"types.GetUndelegationQueueKey", "kUndelQ", 8, []Sort{SInt, SBytes}},
	{"types.GetRedelegationIndexKey", "kRedelIdx", 9, []Sort{SBytes, SInt, SStr, SBytes, SBytes}},
	{"types.GetUnbondingIndexKey", "kUnbIdx", 10, []Sort{SBytes, SInt, SStr, SBytes}},
	// prefixes
	{"types.GetDelegationsKey", "pDelByDel", 0, []Sort{SBytes}},
	{"types.GetDelegationsKeyForAllDenoms", "pDelByDelVal", 0, []Sort{SBytes, SBytes}},
	{"types.GetRedelegationsKeyByDelegator", "pRedelByDel", 0, []Sort{SBytes}},
	{"types.GetRedelegationsKeyByDelegatorAndDenom", "pRedelByDelDenom", 0, []Sort{SBytes, SStr}},
	{"types.GetRedelegationsKey", "pRedelByDelDenomDst", 0, []Sort{SBytes, SStr, SBytes}},
	{"types.GetRedelegationsIndexOrderedByValidatorKey", "pRedelIdxBySrc", 0, []Sort{SBytes}},
	{"types.GetUndelegationsIndexOrderedByValidatorKey", "pUnbIdxByVal", 0, []Sort{SBytes}},
	{"types.GetUndelegationQueueKeyByTime", "pUndelQByTime", 0, []Sort{SInt}},
	{"types.GetPartialUnbondingKeySuffix", "sUnb", 0, []Sort{SStr, SBytes}},
}

const (
	tagFlag   = 3
	tagParams = 11
)

var keyConsByFn = func() map[string]*keyCons {
	mm := map[string]*keyCons{}
	for i := range keyFamilies {
		mm[keyFamilies[i].Fn] = &keyFamilies[i]
	}
	return mm
}()

func (E *Engine) declKeys() {
	D := E.D
	if _, done := D.seen["ktag"]; done {
		return
	}
	E.Assume("A-KEYS", "store keys are read algebraically: each key builder of types/keys.go is an injective constructor, key families are pairwise disjoint, key parsers are the projections, prefix scans select by leading components, the two time-keyed queue range scans [prefix, key(T)) select exactly completion times < T in ascending time order, and HasSuffix(indexKey, GetPartialUnbondingKeySuffix(d,a)) selects exactly denom d and delegator a")
	E.Assume("A-WFKEYS", "every key present in the module store was written by the module through one of its key builders (store well-formedness)")
	D.Fun("ktag", []Sort{SBytes}, SInt)
	for _, kc := range keyFamilies {
		D.Fun(kc.Cons, kc.Args, SBytes)
		var vars, names []string
		for i, s := range kc.Args {
			vars = append(vars, fmt.Sprintf("(x%d %s)", i, s))
			names = append(names, fmt.Sprintf("x%d", i))
		}
		app := "(" + kc.Cons + " " + strings.Join(names, " ") + ")"
		var conj []string
		if kc.Tag != 0 {
			conj = append(conj, fmt.Sprintf("(= (ktag %s) %d)", app, kc.Tag))
		}
		var inv []string
		for i, s := range kc.Args {
			pn := fmt.Sprintf("%s_%d", kc.Cons, i+1)
			D.Fun(pn, []Sort{SBytes}, s)
			conj = append(conj, fmt.Sprintf("(= (%s %s) x%d)", pn, app, i))
			inv = append(inv, fmt.Sprintf("(%s k)", pn))
		}
		D.Axiom(fmt.Sprintf("(forall (%s) (! (and %s) :pattern (%s)))", strings.Join(vars, " "), strings.Join(conj, " "), app))
		if kc.Tag != 0 {
			// every key of the family is built by its constructor
			D.Axiom(fmt.Sprintf("(forall ((k Bytes)) (! (=> (= (ktag k) %d) (= (%s %s) k)) :pattern ((ktag k))))", kc.Tag, kc.Cons, strings.Join(inv, " ")))
		}
	}
	for name, tag := range map[string]int{"g_AssetRebalanceQueueKey": tagFlag, "g_ParamsKey": tagParams} {
		D.Const(name, SBytes)
		D.Axiom(fmt.Sprintf("(= (ktag %s) %d)", name, tag))
	}
	D.Axiom(fmt.Sprintf("(forall ((k Bytes)) (! (=> (= (ktag k) %d) (= k g_AssetRebalanceQueueKey)) :pattern ((ktag k))))", tagFlag))
	D.Axiom(fmt.Sprintf("(forall ((k Bytes)) (! (=> (= (ktag k) %d) (= k g_ParamsKey)) :pattern ((ktag k))))", tagParams))
	D.Axiom("(not (= (ktag bnil) 1))")
	// prefix predicate
	D.Fun("pfx", []Sort{SBytes, SBytes}, SBool)
	pf := func(prefix string, pvars string, body string) {
		D.Axiom(fmt.Sprintf("(forall ((k Bytes) %s) (! (= (pfx k %s) %s) :pattern ((pfx k %s))))", pvars, prefix, body, prefix))
	}
	for name, tag := range map[string]int{"g_AssetKey": 1, "g_ValidatorInfoKey": 2, "g_RewardWeightChangeSnapshotKey": 4, "g_DelegationKey": 5,
		"g_RedelegationKey": 6, "g_RedelegationQueueKey": 7, "g_UndelegationQueueKey": 8, "g_RedelegationByValidatorIndexKey": 9, "g_UndelegationByValidatorIndexKey": 10} {
		D.Const(name, SBytes)
		D.Axiom(fmt.Sprintf("(forall ((k Bytes)) (! (= (pfx k %s) (= (ktag k) %d)) :pattern ((pfx k %s))))", name, tag, name))
	}
	pf("(pDelByDel a)", "(a Bytes)", "(and (= (ktag k) 5) (= (kDel_1 k) a))")
	pf("(pDelByDelVal a v)", "(a Bytes) (v Bytes)", "(and (= (ktag k) 5) (= (kDel_1 k) a) (= (kDel_2 k) v))")
	pf("(pRedelByDel a)", "(a Bytes)", "(and (= (ktag k) 6) (= (kRedel_1 k) a))")
	pf("(pRedelByDelDenom a d)", "(a Bytes) (d Str)", "(and (= (ktag k) 6) (= (kRedel_1 k) a) (= (kRedel_2 k) d))")
	pf("(pRedelByDelDenomDst a d v)", "(a Bytes) (d Str) (v Bytes)", "(and (= (ktag k) 6) (= (kRedel_1 k) a) (= (kRedel_2 k) d) (= (kRedel_3 k) v))")
	pf("(pRedelIdxBySrc v)", "(v Bytes)", "(and (= (ktag k) 9) (= (kRedelIdx_1 k) v))")
	pf("(pUnbIdxByVal v)", "(v Bytes)", "(and (= (ktag k) 10) (= (kUnbIdx_1 k) v))")
	pf("(pUndelQByTime t)", "(t Int)", "(and (= (ktag k) 8) (= (kUndelQ_1 k) t))")
	// range predicate [start, end)
	D.Fun("krange", []Sort{SBytes, SBytes, SBytes}, SBool)
	D.Axiom("(forall ((k Bytes) (t Int)) (! (= (krange k g_UndelegationQueueKey (pUndelQByTime t)) (and (= (ktag k) 8) (< (kUndelQ_1 k) t))) :pattern ((krange k g_UndelegationQueueKey (pUndelQByTime t)))))")
	D.Axiom("(forall ((k Bytes) (t Int)) (! (= (krange k g_RedelegationQueueKey (kRedelQ t)) (and (= (ktag k) 7) (< (kRedelQ_1 k) t))) :pattern ((krange k g_RedelegationQueueKey (kRedelQ t)))))")
	D.Axiom("(forall ((k Bytes) (d Str) (v Bytes) (h Int) (h2 Int)) (! (= (krange k (kSnap d v h) (kSnap d v h2)) (and (= (ktag k) 4) (= (kSnap_1 k) d) (= (kSnap_2 k) v) (<= h (kSnap_3 k)) (< (kSnap_3 k) h2))) :pattern ((krange k (kSnap d v h) (kSnap d v h2)))))")
	// suffix predicate
	D.Fun("sfx", []Sort{SBytes, SBytes}, SBool)
	D.Axiom("(forall ((k Bytes) (d Str) (a Bytes)) (! (=> (= (ktag k) 10) (= (sfx k (sUnb d a)) (and (= (kUnbIdx_3 k) d) (= (kUnbIdx_4 k) a)))) :pattern ((sfx k (sUnb d a)))))")
	// byte order of keys (ascending iteration)
	D.Fun("klt", []Sort{SBytes, SBytes}, SBool)
	D.Axiom("(forall ((a Bytes) (b Bytes)) (! (=> (klt a b) (not (= a b))) :pattern ((klt a b))))")
	D.Axiom("(forall ((a Bytes) (b Bytes) (c Bytes)) (! (=> (and (klt a b) (klt b c)) (klt a c)) :pattern ((klt a b) (klt b c))))")
	D.Axiom("(forall ((a Bytes) (b Bytes)) (! (=> (and (= (ktag a) 8) (= (ktag b) 8) (klt a b)) (<= (kUndelQ_1 a) (kUndelQ_1 b))) :pattern ((klt a b))))")
	D.Axiom("(forall ((a Bytes) (b Bytes)) (! (=> (and (= (ktag a) 7) (= (ktag b) 7) (klt a b)) (< (kRedelQ_1 a) (kRedelQ_1 b))) :pattern ((klt a b))))")
}

// keyBuilderCall: module key builders/parsers are replaced by their algebraic reading.
func (E *Engine) keyBuilderCall(m *Machine, fn *ssa.Function, args []Val) (Val, bool) {
	name := FuncName(fn)
	if kc, ok := keyConsByFn[name]; ok {
		E.declKeys()
		ts := make([]*Term, len(args))
		for i, a := range args {
			ts[i] = term(a)
		}
		return App(SBytes, kc.Cons, ts...), true
	}
	p := func(f string, k *Term, sort Sort) *Term { return App(sort, f, k) }
	switch name {
	case "types.ParseUndelegationQueueKeyForCompletionTime":
		E.declKeys()
		k := term(args[0])
		m.safeSite("keyparse", Eq(App(SInt, "ktag", k), IntLit(8)), "parser applied to a key of another family")
		return &TupleV{Vs: []Val{p("kUndelQ_1", k, SInt), IntLit(0)}}, true
	case "types.ParseRedelegationQueueKey":
		E.declKeys()
		k := term(args[0])
		m.safeSite("keyparse", Eq(App(SInt, "ktag", k), IntLit(7)), "parser applied to a key of another family")
		return p("kRedelQ_1", k, SInt), true
	case "types.ParseRedelegationKeyForCompletionTime":
		E.declKeys()
		k := term(args[0])
		m.safeSite("keyparse", Eq(App(SInt, "ktag", k), IntLit(6)), "parser applied to a key of another family")
		return p("kRedel_4", k, SInt), true
	case "types.ParseRedelegationPaginationKeyTime":
		// applied to a redelegation key with a leading prefix removed (prefix-store iteration): the completion time is the trailing
		// component, untouched by stripping a leading prefix
		E.declKeys()
		k := term(args[0])
		E.D.Fun("kstrip", []Sort{SBytes, SBytes}, SBytes)
		E.D.Fun("redelPagTime", []Sort{SBytes}, SInt)
		E.D.Fun("strippedRedel", []Sort{SBytes}, SBool)
		E.D.Axiom("(forall ((p Bytes) (k Bytes)) (! (=> (and (= (ktag k) 6) (pfx k p)) (and (strippedRedel (kstrip p k)) (= (redelPagTime (kstrip p k)) (kRedel_4 k)))) :pattern ((kstrip p k))))")
		m.safeSite("keyparse", App(SBool, "strippedRedel", k), "pagination-key parser applied to something that is not a redelegation key with a leading prefix removed")
		return p("redelPagTime", k, SInt), true
	case "types.ParseAllianceValidatorKey":
		E.declKeys()
		k := term(args[0])
		m.safeSite("keyparse", Eq(App(SInt, "ktag", k), IntLit(2)), "parser applied to a key of another family")
		return p("kValInfo_1", k, SBytes), true
	case "types.ParseRewardWeightChangeSnapshotKey":
		E.declKeys()
		k := term(args[0])
		m.safeSite("keyparse", Eq(App(SInt, "ktag", k), IntLit(4)), "parser applied to a key of another family")
		return &TupleV{Vs: []Val{p("kSnap_1", k, SStr), p("kSnap_2", k, SBytes), p("kSnap_3", k, SInt)}}, true
	case "types.GetTimeFromUndelegationKey":
		E.declKeys()
		k := term(args[0])
		m.safeSite("keyparse", Eq(App(SInt, "ktag", k), IntLit(10)), "parser applied to a key of another family")
		return &TupleV{Vs: []Val{p("kUnbIdx_2", k, SInt), IntLit(0)}}, true
	case "types.ParseUnbondingIndexKeyToUndelegationKey":
		E.declKeys()
		k := term(args[0])
		m.safeSite("keyparse", Eq(App(SInt, "ktag", k), IntLit(10)), "parser applied to a key of another family")
		t := p("kUnbIdx_2", k, SInt)
		return &TupleV{Vs: []Val{App(SBytes, "kUndelQ", t, p("kUnbIdx_4", k, SBytes)), t, IntLit(0)}}, true
	case "types.ParseRedelegationIndexForRedelegationKey":
		E.declKeys()
		k := term(args[0])
		m.safeSite("keyparse", Eq(App(SInt, "ktag", k), IntLit(9)), "parser applied to a key of another family")
		t := p("kRedelIdx_2", k, SInt)
		nk := App(SBytes, "kRedel", p("kRedelIdx_5", k, SBytes), p("kRedelIdx_3", k, SStr), p("kRedelIdx_4", k, SBytes), t)
		return &TupleV{Vs: []Val{nk, t, IntLit(0)}}, true
	}
	return nil, false
}
