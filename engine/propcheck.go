package main

func runCheck(root string, args []string) int { return 2 }
