package main

import (
	"crypto/sha256"
	"encoding/json"
	"fmt"
	"golang.org/x/tools/go/ssa"
	"os"
	"os/exec"
	"path/filepath"
	"regexp"
	"sort"
	"strconv"
	"strings"
	"time"
)

type KnownFinding struct {
	Property   string `json:"property"`
	Obligation string `json:"obligation"`
	Status     string `json:"status"` // known | fixed
	What       string `json:"what"`
	Commit     string `json:"commit,omitempty"`
	Witness    string `json:"witness,omitempty"`
}

func verifDir() string {
	if d := os.Getenv("GVC_VERIF"); d != "" {
		return d
	}
	return "/verif"
}

func loadKnown() []KnownFinding {
	b, err := os.ReadFile(filepath.Join(verifDir(), "known_findings.json"))
	if err != nil {
		return nil
	}
	var out []KnownFinding
	if err := json.Unmarshal(b, &out); err != nil {
		fmt.Fprintln(os.Stderr, "known_findings.json:", err)
	}
	return out
}

// expectedObligations lists, per function, the obligation names the contract promises for a property.
func expectedObligations(c *Contract, prop string) []string {
	var out []string
	for _, e := range c.Ensures {
		if hasProp(e.Props, prop) && !e.Assumed {
			out = append(out, c.Func+":post:"+e.Label)
		}
	}
	return out
}

func contractHasProp(c *Contract, prop string) bool {
	for _, p := range allProps(c) {
		if p == prop {
			return true
		}
	}
	return false
}

// demandProps collects the properties of call-site demands that arise inside fn: those of every callee that is used
// through its contract, following the functions that are inlined (no modular/trusted contract) and closures.
// A function is checked under property P also when such a demand of P arises in it, whether or not its own
// contract mentions P (otherwise the demand would never be discharged by any check).
func (E *Engine) demandProps(fn *ssa.Function, seen map[*ssa.Function]bool, out map[string]bool) {
	if fn == nil || seen[fn] || fn.Blocks == nil {
		return
	}
	seen[fn] = true
	for _, b := range fn.Blocks {
		for _, in := range b.Instrs {
			if mc, ok := in.(*ssa.MakeClosure); ok {
				if cf, ok := mc.Fn.(*ssa.Function); ok {
					E.demandProps(cf, seen, out)
				}
				continue
			}
			ci, ok := in.(ssa.CallInstruction)
			if !ok {
				continue
			}
			callee := ci.Common().StaticCallee()
			if callee == nil {
				continue
			}
			if !(isModuleFn(callee) || callee.Parent() != nil && isModuleFn(callee.Parent())) {
				continue
			}
			if c := E.Specs.Contracts[FuncName(callee)]; c != nil {
				for _, rq := range c.Requires {
					if rq.CallSiteOnly {
						for _, p := range rq.Props {
							out[p] = true
						}
					}
				}
				if c.Modular || c.Trusted {
					continue
				}
			}
			E.demandProps(callee, seen, out)
		}
	}
}

func (E *Engine) functionHasProp(name string, c *Contract, prop string) bool {
	if contractHasProp(c, prop) {
		return true
	}
	fn := E.P.Funcs[name]
	if fn == nil {
		return false
	}
	out := map[string]bool{}
	E.demandProps(fn, map[*ssa.Function]bool{}, out)
	return out[prop]
}

func runCheck(root string, args []string) int {
	if len(args) == 0 {
		fmt.Fprintln(os.Stderr, "usage: gvc check <Cxx> [--tier quick|thorough]")
		return 2
	}
	prop := args[0]
	tier := "quick"
	for i, a := range args {
		if a == "--tier" && i+1 < len(args) {
			tier = args[i+1]
		}
	}
	if t := os.Getenv("VERIF_TIER"); t == "quick" || t == "thorough" {
		tier = t
	}
	seed := 1
	if s := os.Getenv("VERIF_SEED"); s != "" {
		if n, err := strconv.Atoi(s); err == nil {
			seed = n
		}
	}
	t0 := time.Now()
	vd := verifDir()
	evPath := filepath.Join(vd, "evidence", prop+".json")
	os.Remove(evPath)
	violations := 0
	var vioLines []string
	report := func(obl, reason, detail, model, query string, nofail bool) {
		violations++
		dir := filepath.Join(vd, "replays", prop)
		os.MkdirAll(dir, 0o755)
		path := filepath.Join(dir, sanitize(obl)+".json")
		jsonOut(path, map[string]interface{}{
			"property": prop, "obligation": obl, "reason": reason, "detail": detail, "model": model,
			"query_file": path + ".smt2", "replayed": false,
			"note": "no-failing-input-found: the solver gave no model that could be replayed on the real code; the obligation is named above and the solver output is attached",
		})
		if query != "" {
			writeFile(path+".smt2", query)
		}
		line := fmt.Sprintf("VIOLATION property=%s replay=%s obligation=%s (%s)", prop, path, obl, reason)
		if nofail {
			line += " no-failing-input-found"
		}
		vioLines = append(vioLines, line)
	}

	if prop == "C19" {
		return runEffectCheck(root, tier, seed, evPath)
	}

	E, err := loadEngine(root)
	if err != nil {
		// the tree does not compile: nothing can be decided
		fmt.Println("gvc: cannot load /repo:", err)
		report("load", "the repository does not load/compile with -tags verif", err.Error(), "", "", true)
		for _, l := range vioLines {
			fmt.Println(l)
		}
		return 1
	}
	for _, e := range E.Specs.Errors {
		fmt.Println("SPEC ERROR:", e)
		report("spec", "contract file error", e, "", "", true)
	}
	cfg := runCfg{TimeoutS: 10, Seed: seed, Jobs: 16, Prop: prop}
	if tier == "thorough" {
		cfg.TimeoutS = 60
	}
	var names []string
	for n, c := range E.Specs.Contracts {
		if E.functionHasProp(n, c, prop) && (!c.Trusted || hasProp(c.Sweep, prop) && len(c.Sweep) > 0) {
			names = append(names, n)
		}
	}
	sort.Strings(names)
	var reps []FuncReport
	var notTranslated []string
	for _, n := range names {
		rep := E.VerifyFunc(n)
		reps = append(reps, rep)
		if rep.Unsupp != "" {
			notTranslated = append(notTranslated, n+": "+rep.Unsupp)
			exp := expectedObligations(E.Specs.Contracts[n], prop)
			if len(exp) == 0 {
				exp = []string{n + ":sweep"}
			}
			for _, o := range exp {
				report(o, "obligation could not be regenerated from the current source (undecided)", rep.Unsupp, "", "", true)
			}
		}
	}
	if _, lerrs := E.GenLemmas(prop); len(lerrs) > 0 {
		for _, le := range lerrs {
			report("lemma", "lemma could not be generated", le, "", "", true)
		}
	}
	res := E.solveAll(cfg)
	// vacuity guards: the axioms alone, and each function's preconditions, must not be contradictory
	vac := 0
	{
		type vq struct {
			name, reason string
			q            string
			res          SolveResult
		}
		vqs := []*vq{{name: "vacuity:axioms", reason: "the assumed axioms are contradictory (every obligation would be vacuous)", q: E.buildQuery(ReadU, nil, False)}}
		for _, n := range names {
			if pc, ok := E.EntryPC[n]; ok {
				vqs = append(vqs, &vq{name: "vacuity:requires:" + n, reason: "the preconditions of the contract are contradictory (vacuous contract)", q: E.buildQuery(ReadU, pc, False)})
			}
		}
		done := make(chan bool, len(vqs))
		for _, v := range vqs {
			go func(v *vq) { v.res = Solve(v.q, 2, seed, true, false); done <- true }(v)
		}
		for range vqs {
			<-done
		}
		for _, v := range vqs {
			vac++
			if v.res.Status == "unsat" {
				report(v.name, v.reason, v.res.Output, "", "", true)
			}
		}
	}
	known := loadKnown()
	isKnown := func(name string) *KnownFinding {
		for i := range known {
			if known[i].Property == prop && known[i].Obligation == name && known[i].Status == "known" {
				return &known[i]
			}
		}
		return nil
	}
	nObl, nDis := 0, 0
	var per []map[string]interface{}
	var knownHit []string
	var samples []interface{}
	var solverMs int64
	ideal := 0
	for _, r := range res {
		solverMs += r.Ms
		kf := isKnown(r.Name)
		entry := map[string]interface{}{"name": r.Name, "reading": r.Reading, "kind": r.Kind, "path_instances": r.Instances, "status": r.Status, "solver": r.Solver, "ms": r.Ms}
		if kf != nil {
			entry["known_finding"] = kf.What
			if r.Status != "discharged" {
				knownHit = append(knownHit, r.Name)
				fmt.Printf("KNOWN-FINDING: property=%s %s: %s\n", prop, r.Name, kf.What)
			} else {
				entry["note"] = "listed as known finding but discharged on this tree"
			}
			per = append(per, entry)
			continue
		}
		nObl++
		if r.Reading == "R" {
			ideal++
		}
		if r.Status == "discharged" {
			nDis++
		} else {
			detail := r.FailInfo + "\nclause: " + r.Src + "\npath: " + r.failPath + "\n" + r.solverOut
			report(r.Name, "obligation not discharged: "+r.FailInfo, detail, r.failModel, r.failQuery, true)
		}
		per = append(per, entry)
		if len(samples) < 3 && r.Src != "" {
			samples = append(samples, map[string]string{"obligation": r.Name, "clause": r.Src, "reading": r.Reading})
		}
	}
	// reading U rests on axioms about the fixed-point operations: each is proved here, on every run, as a lemma in reading E (the exact
	// definitions); a deliberately false lemma must fail (guards the prelude against inconsistency)
	if _, usesDec := E.Used["A-DEC"]; usesDec {
		for _, r := range proveUAxioms(cfg.TimeoutS, seed) {
			nObl++
			solverMs += r.Ms
			name := "ulemma:" + r.Name
			entry := map[string]interface{}{"name": name, "reading": "E", "kind": "lemma", "path_instances": 1, "status": "discharged", "solver": r.Solver, "ms": r.Ms}
			if r.Status == "unsat" {
				nDis++
			} else {
				entry["status"] = "failed"
				report(name, "axiom of reading U is not a lemma of the exact fixed-point definitions: "+r.Status, "", "", "", true)
			}
			per = append(per, entry)
		}
		canary := Solve(Prelude(ReadE)+"(assert (not (forall ((a Dec) (b Dec)) (=> (and (>= a 0) (>= b 0)) (>= (dmul a b) a)))))\n(check-sat)\n", 5, seed, false, false)
		vac++
		if canary.Status == "unsat" {
			report("vacuity:ulemma-canary", "a false lemma about dmul was proved in reading E (the prelude is inconsistent)", canary.Output, "", "", true)
		}
	}
	if nObl == 0 && violations == 0 {
		report("vacuity", "no obligation was generated for this property (vacuous check)", "", "", "", true)
	}
	// thorough tier: bounded validation of A-KEYS on the real key builders/parsers (never counted as proved)
	var bounded []map[string]interface{}
	keysChanged := false
	if _, usesKeys := E.Used["A-KEYS"]; usesKeys && tier != "thorough" {
		// quick tier: re-validate only when keys.go is not the exact file the bounded check was last recorded for
		want, _ := os.ReadFile(filepath.Join(vd, "keylayer", "validated_keys_go.sha256"))
		cur, err := os.ReadFile(filepath.Join(root, "x/alliance/types/keys.go"))
		keysChanged = err != nil || strings.TrimSpace(string(want)) != fmt.Sprintf("%x", sha256.Sum256(cur))
	}
	if _, usesKeys := E.Used["A-KEYS"]; usesKeys && (tier == "thorough" || keysChanged) {
		res := runKeyLayer(root, vd)
		bounded = append(bounded, map[string]interface{}{
			"name":   "bounded:A-KEYS key layer (keylayer/zz_keylayer_test.go on the real x/alliance/types/keys.go)",
			"bound":  "12 denoms x 12 addresses (1..32 bytes) x 10 times x 9 heights; 7 facts: injective constructors / disjoint families, parsers = projections, prefix scans, suffix match, chronological end-exclusive ranges, pagination-key time survives prefix stripping, family prefixes",
			"status": res.status, "seconds": res.secs, "failed_facts": res.failed,
		})
		if res.status == "failed" {
			violations++
			dir := filepath.Join(vd, "replays", prop)
			os.MkdirAll(dir, 0o755)
			path := filepath.Join(dir, "bounded_A-KEYS_key_layer.json")
			jsonOut(path, map[string]interface{}{"property": prop, "obligation": "bounded:A-KEYS", "replayed": true,
				"reason":       "the real key builders/parsers violate a fact the algebraic key model assumes; the failing inputs are in the test output",
				"failed_facts": res.failed, "output": res.out, "rerun": "cd /repo && go test -overlay <{\"Replace\":{\"/repo/x/alliance/types/zz_keylayer_test.go\":\"/verif/keylayer/zz_keylayer_test.go\"}}> -vet=off -run TestKeyLayer ./x/alliance/types/"})
			vioLines = append(vioLines, fmt.Sprintf("VIOLATION property=%s replay=%s obligation=bounded:A-KEYS (%s: the algebraic key model does not describe the real keys.go)", prop, path, strings.Join(res.failed, ",")))
		} else if res.status != "passed" {
			fmt.Println("NOTE: bounded A-KEYS validation could not run:", res.status)
		}
	}
	// thorough tier: bounded validation of the trusted reward-arithmetic contracts on the real code (C12, C13)
	if rwFacts := map[string][]string{
		"C12": {"indices_only_grow", "claims_never_exceed_the_deposit", "claims_covered_up_to_index_rounding", "second_claim_pays_nothing", "position_settled_after_claim", "claims_across_a_weight_change_pay_each_deposit_once"},
		"C13": {"claims_never_exceed_the_deposit", "claims_covered_up_to_index_rounding", "second_claim_pays_nothing", "position_settled_after_claim", "payouts_pro_rata_within_an_asset", "rewards_split_between_assets_by_weight", "claims_across_a_weight_change_pay_each_deposit_once", "large_total_asset_is_not_starved", "zero_weight_alliance_does_not_starve_the_others"},
	}[prop]; rwFacts != nil && tier == "thorough" {
		runBoundedSuite(root, vd, prop, seed, "reward-arithmetic", "bounded/zz_bounded_rewards_test.go", "TestBoundedRewardArithmetic", rwFacts,
			"57 scenarios: 2 with a zero-weight alliance next to a positive-weight one; 3 with an 18-decimals asset staked next to a 6-decimals asset of equal weight; 4 claims stepping through a reward-weight change (earlier claim, accrual, weight change, accrual, claim); 1,2,3,5 delegators x 3 reward weights x 4 reward amounts (1 .. 1e12), stakes 1 .. 1e24 base units, two assets, two reward denoms, seeded claim order",
			isKnown, &knownHit, &bounded, &violations, &vioLines)
	}
	// thorough tier: every defect that was repaired stays repaired - the replay test of each `fixed:` entry of this property is run against the
	// working tree; it must not print REPLAY-CONFIRMED (a returned defect is reported with the concrete history the replay prints)
	if tier == "thorough" {
		type rp struct{ file, test string }
		seenT := map[string]bool{}
		var rps []rp
		re := regexp.MustCompile(`(replay_tests/\S+\.go) \((\w+)\)`)
		for _, k := range known {
			if k.Property != prop || k.Status != "fixed" {
				continue
			}
			if mm := re.FindStringSubmatch(k.Witness); mm != nil && !seenT[mm[2]] {
				seenT[mm[2]] = true
				rps = append(rps, rp{mm[1], mm[2]})
			}
		}
		if len(rps) > 0 {
			t0r := time.Now()
			repl := map[string]string{}
			var names []string
			for _, r := range rps {
				src := filepath.Join(vd, r.file)
				if _, err := os.Stat(src); err != nil {
					src = filepath.Join("/verif", r.file)
				}
				repl[filepath.Join(root, "x/alliance/keeper/tests", filepath.Base(r.file))] = src
				names = append(names, r.test)
			}
			ov, _ := os.CreateTemp("", "gvc-ov-*.json")
			jb, _ := json.Marshal(map[string]interface{}{"Replace": repl})
			ov.Write(jb)
			ov.Close()
			cmd := exec.Command("go", "test", "-v", "-overlay", ov.Name(), "-vet=off", "-count=1", "-timeout", "900s", "-run", "^("+strings.Join(names, "|")+")$", "./x/alliance/keeper/tests/")
			cmd.Dir = root
			cmd.Env = append(os.Environ(), "GOFLAGS=-mod=mod", "GOPROXY=off", "GOSUMDB=off", "GOTOOLCHAIN=local")
			b, err := cmd.CombinedOutput()
			os.Remove(ov.Name())
			out := string(b)
			var returned []string
			for _, l := range strings.Split(out, "\n") {
				if strings.Contains(l, "REPLAY-CONFIRMED") {
					returned = append(returned, strings.TrimSpace(l))
				}
			}
			ran := 0
			for _, n := range names {
				if strings.Contains(out, "--- PASS: "+n) || strings.Contains(out, "--- FAIL: "+n) {
					ran++
				}
			}
			status := "passed"
			if len(returned) > 0 {
				status = "failed"
			} else if err != nil || ran != len(names) {
				status = "could not build or run: " + firstLine(out)
			}
			bounded = append(bounded, map[string]interface{}{
				"name": "regression: replays of the repaired defects of this property (replay_tests/, on the real code)", "bound": "the recorded failing histories only: " + strings.Join(names, ", "),
				"status": status, "seconds": time.Since(t0r).Seconds(), "failed_facts": returned,
			})
			if status != "passed" {
				violations++
				dir := filepath.Join(vd, "replays", prop)
				os.MkdirAll(dir, 0o755)
				path := filepath.Join(dir, "regression_replays.json")
				if len(out) > 8000 {
					out = out[:8000]
				}
				jsonOut(path, map[string]interface{}{"property": prop, "obligation": "regression:fixed-findings", "replayed": len(returned) > 0,
					"reason": "a repaired defect of this property is back: its replay reproduces the recorded failure on the current source", "returned": returned, "status": status, "output": out})
				line := fmt.Sprintf("VIOLATION property=%s replay=%s obligation=regression:fixed-findings (%d repaired defect(s) reproduced again)", prop, path, len(returned))
				if len(returned) == 0 {
					line = fmt.Sprintf("VIOLATION property=%s replay=%s obligation=regression:fixed-findings (could not be run on the current source: %s) no-failing-input-found", prop, path, status)
				}
				vioLines = append(vioLines, line)
			}
		}
	}
	// thorough tier: bounded stand-in for the numeric rebalance target, the net-supply closed form and the end blocker's success (C10, C11, C17)
	if rebFacts := map[string][]string{
		"C10": {"bonded_validators_at_target", "unbonded_validators_not_adjusted", "end_of_block_succeeds"},
		"C11": {"module_holds_no_staking_denom", "net_supply_unchanged", "no_user_receives_staking_denom"},
		"C17": {"end_of_block_succeeds"},
	}[prop]; rebFacts != nil && tier == "thorough" {
		runBoundedSuite(root, vd, prop, seed, "rebalance", "bounded/zz_bounded_rebalance_test.go", "TestBoundedRebalance", rebFacts,
			"10 seeded random histories x 14 blocks, 3 bonded validators with native stake, 3 users, two assets (one starts 5 minutes later), alliance and native (un)delegations, weight changes, jail/unjail, real staking slashes, fee distribution; each block ends with the staking validator-set update and the real EndBlocker",
			isKnown, &knownHit, &bounded, &violations, &vioLines)
	}
	// thorough tier: bounded comparison of the queries with an independent enumeration (C20)
	if prop == "C20" && tier == "thorough" {
		runBoundedSuite(root, vd, prop, seed, "queries", "bounded/zz_bounded_queries_test.go", "TestBoundedQueries",
			[]string{"unbondings_by_delegator_exact", "unbondings_by_denom_and_delegator_exact", "unbondings_by_validator_exact", "redelegations_by_delegator_exact", "redelegations_by_denom_exact", "delegation_query_reports_record_and_balance",
				"delegations_by_delegator_exact", "paged_redelegations_are_windows_of_the_listing", "paged_delegations_are_windows_of_the_listing"},
			"10 seeded random histories x 16 steps (same-block steps), 3 users x 3 validators x 2 assets; every third history starts with a delegator unbonding from two validators and two denoms in one block",
			isKnown, &knownHit, &bounded, &violations, &vioLines)
	}
	// thorough tier: bounded stand-in for the compositions over blocks (C09, C14, C15)
	if schFacts := map[string][]string{
		"C09": {"deposit_not_charged_for_earlier_intervals", "staked_total_follows_compounding"},
		"C14": {"weight_follows_the_decay_schedule"},
		"C15": {"onward_hop_blocked_while_pending", "restriction_lifted_after_maturity", "pending_redelegation_removed_at_first_block_after_maturity"},
	}[prop]; schFacts != nil && tier == "thorough" {
		runBoundedSuite(root, vd, prop, seed, "schedule", "bounded/zz_bounded_schedule_test.go", "TestBoundedSchedule", schFacts,
			"10 seeded histories x 18 blocks on an irregular schedule (gaps 0, 1 s, 1 min, 4 min 59 s, 7 min, 26 min, unbonding period + 1 s), take rates 1%/10%/50% per 5 minutes, decay 0.9 per 10 minutes in [0.5, 5], deposits and redelegations inside blocks, the real EndBlocker after every block",
			isKnown, &knownHit, &bounded, &violations, &vioLines)
	}
	// thorough tier: bounded stand-in for the export/import composition (C18)
	if prop == "C18" && tier == "thorough" {
		runBoundedSuite(root, vd, prop, seed, "genesis", "bounded/zz_bounded_genesis_test.go", "TestBoundedGenesisRoundTrip",
			[]string{"import_of_an_export_succeeds", "second_export_identical", "continuation_results_identical", "continuation_states_identical"},
			"16 seeded random histories x (14 steps, export, import into an emptied module store on a branch, 12 lock-step continuation steps); every fourth history starts with a delegator redelegating from two sources to one destination in one block",
			isKnown, &knownHit, &bounded, &violations, &vioLines)
	}
	// thorough tier: bounded stand-in for the whole-state ledger statements (C01, C02, C03)
	if ledFacts := map[string][]string{
		"C01": {"custody_equals_staked_plus_pending"},
		"C02": {"custody_equals_staked_plus_pending", "user_balances_change_only_by_deposits_and_matured_unbondings", "matured_unbondings_are_removed"},
		"C07": {"slashed_validators_pending_entries_lose_exactly_the_fraction", "other_pending_entries_untouched_by_a_slash", "slash_keeps_the_pending_entries"},
		"C03": {"delegator_shares_sum_to_validator_total", "validator_shares_sum_to_asset_total", "no_negative_shares", "shares_reset_when_nothing_staked"},
	}[prop]; ledFacts != nil && tier == "thorough" {
		runBoundedSuite(root, vd, prop, seed, "ledger", "bounded/zz_bounded_ledger_test.go", "TestBoundedLedger", ledFacts,
			"12 seeded random histories x 16 steps (same-block steps, minute steps and jumps past the unbonding period), 3 users x 3 validators x 2 assets, amounts 1 .. 1e30, slashes 0.01% .. 100%, CompleteUnbondings, a directed shared-bucket prelude in every fourth history; independent enumeration of delegations, validators, assets, unbonding queue and the module balance after every step",
			isKnown, &knownHit, &bounded, &violations, &vioLines)
	}
	// thorough tier: bounded validation of the composed fixed-point behaviour of positions on the real code (C04, C05, C20)
	if posFacts := map[string][]string{
		"C04": {"actor_moves_the_amount", "other_positions_unchanged", "values_sum_below_staked_total"},
		"C06": {"slashed_positions_scaled_by_one_minus_f_times_g", "other_positions_scaled_by_g"},
		"C05": {"operations_do_not_panic", "anyone_can_enter", "undelegating_the_reported_balance_does_not_panic", "reported_balance_can_be_undelegated", "reported_balance_minus_tolerance_can_be_undelegated"},
		"C20": {"reported_balance_can_be_undelegated"},
	}[prop]; posFacts != nil && tier == "thorough" {
		res := runBoundedTest(root, vd, "bounded/zz_bounded_positions_test.go", "x/alliance/keeper/tests", "TestBoundedPositions", seed)
		var unknownFacts, knownFacts, mine []string
		for _, fct := range res.failed {
			base := fct
			if i := strings.Index(fct, "@"); i >= 0 {
				base = fct[:i]
			}
			relevant := false
			for _, pf := range posFacts {
				if pf == base {
					relevant = true
				}
			}
			if !relevant {
				continue
			}
			mine = append(mine, fct)
			name := "bounded:positions:" + fct
			if kf := isKnown(name); kf != nil {
				knownFacts = append(knownFacts, fct)
				knownHit = append(knownHit, name)
				fmt.Printf("KNOWN-FINDING: property=%s %s: %s\n", prop, name, kf.What)
			} else {
				unknownFacts = append(unknownFacts, fct)
			}
		}
		bounded = append(bounded, map[string]interface{}{
			"name":   "bounded:positions (bounded/zz_bounded_positions_test.go on the real Delegate / Undelegate / Redelegate / SlashValidator)",
			"bound":  "12 seeded random histories x 14 steps, 4 users x 3 validators, amounts 1, 7, 1e6, 1e12+7, 1e18, 1e24, 1e30, slashes 0.01%, 5%, 50%, 100%; facts of this property: " + strings.Join(posFacts, ", ") + "; each fact is qualified by the regime it was checked in (\"\", @18dec, @after_full_slash, @zero_valued_validator)",
			"status": res.status, "seconds": res.secs, "failed_facts": mine, "known_failed_facts": knownFacts,
		})
		if len(unknownFacts) > 0 || (res.status != "passed" && res.status != "failed") {
			violations++
			dir := filepath.Join(vd, "replays", prop)
			os.MkdirAll(dir, 0o755)
			path := filepath.Join(dir, "bounded_positions.json")
			jsonOut(path, map[string]interface{}{"property": prop, "obligation": "bounded:positions", "replayed": len(unknownFacts) > 0,
				"reason": "the real staking operations violate a fact of this property on a concrete history; the inputs are in the output", "failed_facts": unknownFacts, "status": res.status, "output": res.out})
			line := fmt.Sprintf("VIOLATION property=%s replay=%s obligation=bounded:positions (%s)", prop, path, strings.Join(unknownFacts, ","))
			if len(unknownFacts) == 0 {
				line = fmt.Sprintf("VIOLATION property=%s replay=%s obligation=bounded:positions (could not be run on the current source: %s) no-failing-input-found", prop, path, res.status)
			}
			vioLines = append(vioLines, line)
		}
	}
	var trusted []string
	var assumptions []string
	var ids []string
	for id := range E.Used {
		ids = append(ids, id)
	}
	sort.Strings(ids)
	for _, id := range ids {
		trusted = append(trusted, id)
		assumptions = append(assumptions, id+": "+E.Used[id])
	}
	trusted = append(trusted, "gvc (SSA->VC generator written for this task)", "z3 5.1.0 / z3 4.8.12 / cvc5 1.0")
	var fus []map[string]interface{}
	for _, r := range reps {
		fus = append(fus, map[string]interface{}{"func": r.Name, "paths": r.Paths, "obligation_instances": r.NObls, "translated": r.Unsupp == ""})
	}
	var trustedContracts []string
	for n, c := range E.Specs.Contracts {
		if c.Trusted {
			trustedContracts = append(trustedContracts, n)
		}
	}
	sort.Strings(trustedContracts)
	ev := map[string]interface{}{
		"property_id": prop, "tier": tier, "seed": seed, "level": "proof",
		"coverage": map[string]interface{}{
			"obligations": nObl, "discharged": nDis,
			"checker_cmd":              fmt.Sprintf("bin/gvc check %s --tier %s", prop, tier),
			"trusted_base":             trusted,
			"samples":                  samples,
			"functions_under_contract": fus,
			"per_obligation":           per,
			"ideal_obligations":        ideal,
			"known_findings_hit":       knownHit,
			"not_translated":           notTranslated,
			"trusted_contracts":        trustedContracts,
			"solver_ms_total":          solverMs,
			"vacuity_checks":           vac,
			"bounded_checks":           bounded,
			"dropped_by_extraction":    "event emission, logging, telemetry, iterator Close, gas metering, error message text, context plumbing, protobuf wire format, bech32 text, big.Int bit widths (DESIGN.md 3.8)",
			"integers":                 "mathematical (A-OVF); LegacyDec per obligation reading U/E/R",
		},
		"assumptions": assumptions,
		"wall_s":      time.Since(t0).Seconds(),
		"violations":  violations,
	}
	if err := jsonOut(evPath, ev); err != nil {
		fmt.Fprintln(os.Stderr, "cannot write evidence:", err)
	}
	fmt.Printf("gvc check %s (%s): %d obligations, %d discharged, %d known findings, %d functions, %.1fs\n", prop, tier, nObl, nDis, len(knownHit), len(names), time.Since(t0).Seconds())
	for _, l := range vioLines {
		fmt.Println(l)
	}
	if violations > 0 {
		return 1
	}
	return 0
}

// runBoundedSuite runs one bounded suite for a property, keeps the facts that belong to the property, and reports unknown failed facts.
func runBoundedSuite(root, vd, prop string, seed int, suite, rel, testName string, facts []string, bound string,
	isKnown func(string) *KnownFinding, knownHit *[]string, bounded *[]map[string]interface{}, violations *int, vioLines *[]string) {
	res := runBoundedTest(root, vd, rel, "x/alliance/keeper/tests", testName, seed)
	var unknownFacts, knownFacts, mine []string
	for _, fct := range res.failed {
		base := fct
		if i := strings.Index(fct, "@"); i >= 0 {
			base = fct[:i]
		}
		relevant := false
		for _, pf := range facts {
			if pf == base {
				relevant = true
			}
		}
		if !relevant {
			continue
		}
		mine = append(mine, fct)
		name := "bounded:" + suite + ":" + fct
		if kf := isKnown(name); kf != nil {
			knownFacts = append(knownFacts, fct)
			*knownHit = append(*knownHit, name)
			fmt.Printf("KNOWN-FINDING: property=%s %s: %s\n", prop, name, kf.What)
		} else {
			unknownFacts = append(unknownFacts, fct)
		}
	}
	*bounded = append(*bounded, map[string]interface{}{
		"name": "bounded:" + suite + " (" + rel + " on the real code)", "bound": bound + "; facts of this property: " + strings.Join(facts, ", "),
		"status": res.status, "seconds": res.secs, "failed_facts": mine, "known_failed_facts": knownFacts,
	})
	if len(unknownFacts) > 0 || (res.status != "passed" && res.status != "failed") {
		*violations++
		dir := filepath.Join(vd, "replays", prop)
		os.MkdirAll(dir, 0o755)
		path := filepath.Join(dir, "bounded_"+suite+".json")
		jsonOut(path, map[string]interface{}{"property": prop, "obligation": "bounded:" + suite, "replayed": len(unknownFacts) > 0,
			"reason": "the real code violates a fact of this property on a concrete history; the inputs are in the output", "failed_facts": unknownFacts, "status": res.status, "output": res.out})
		line := fmt.Sprintf("VIOLATION property=%s replay=%s obligation=bounded:%s (%s)", prop, path, suite, strings.Join(unknownFacts, ","))
		if len(unknownFacts) == 0 {
			line = fmt.Sprintf("VIOLATION property=%s replay=%s obligation=bounded:%s (could not be run on the current source: %s) no-failing-input-found", prop, path, suite, res.status)
		}
		*vioLines = append(*vioLines, line)
	}
}

// runBoundedTest runs a bounded validation test of /verif against the working tree through `go test -overlay`;
// failed facts are the `BOUNDED-FACT-FAILED <fact> ::` lines it prints.
func runBoundedTest(root, vd, rel, pkgdir, testName string, seed int) keyLayerResult {
	t0 := time.Now()
	src := filepath.Join(vd, rel)
	if _, err := os.Stat(src); err != nil {
		src = filepath.Join("/verif", rel)
		if _, err2 := os.Stat(src); err2 != nil {
			return keyLayerResult{status: "bounded test file missing"}
		}
	}
	ov, err := os.CreateTemp("", "gvc-ov-*.json")
	if err != nil {
		return keyLayerResult{status: err.Error()}
	}
	defer os.Remove(ov.Name())
	fmt.Fprintf(ov, "{\"Replace\": {%q: %q}}\n", filepath.Join(root, pkgdir, filepath.Base(rel)), src)
	ov.Close()
	cmd := exec.Command("go", "test", "-v", "-overlay", ov.Name(), "-vet=off", "-count=1", "-timeout", "900s", "-run", "^"+testName+"$", "./"+pkgdir+"/")
	cmd.Dir = root
	cmd.Env = append(os.Environ(), "GOFLAGS=-mod=mod", "GOPROXY=off", "GOSUMDB=off", "GOTOOLCHAIN=local", fmt.Sprintf("VERIF_SEED=%d", seed))
	b, err := cmd.CombinedOutput()
	out := string(b)
	res := keyLayerResult{out: out, secs: time.Since(t0).Seconds()}
	seen := map[string]bool{}
	for _, l := range strings.Split(out, "\n") {
		if strings.HasPrefix(l, "BOUNDED-FACT-FAILED ") {
			f := strings.Fields(l)[1]
			if !seen[f] {
				seen[f] = true
				res.failed = append(res.failed, f)
			}
		}
	}
	switch {
	case err == nil && strings.Contains(out, "BOUNDED-SUMMARY"):
		res.status = "passed"
	case strings.Contains(out, "BOUNDED-SUMMARY"):
		res.status = "failed"
	default:
		res.status = "could not build or run: " + firstLine(out)
	}
	if len(out) > 6000 {
		res.out = out[:6000]
	}
	return res
}

type keyLayerResult struct {
	status string // passed | failed | <why it could not run>
	failed []string
	out    string
	secs   float64
}

// runKeyLayer runs keylayer/zz_keylayer_test.go against the working tree's x/alliance/types through `go test -overlay`.
func runKeyLayer(root, vd string) keyLayerResult {
	t0 := time.Now()
	src := filepath.Join(vd, "keylayer", "zz_keylayer_test.go")
	if _, err := os.Stat(src); err != nil {
		if _, err2 := os.Stat("/verif/keylayer/zz_keylayer_test.go"); err2 == nil {
			src = "/verif/keylayer/zz_keylayer_test.go"
		} else {
			return keyLayerResult{status: "keylayer test file missing"}
		}
	}
	ov, err := os.CreateTemp("", "gvc-ov-*.json")
	if err != nil {
		return keyLayerResult{status: err.Error()}
	}
	defer os.Remove(ov.Name())
	fmt.Fprintf(ov, "{\"Replace\": {%q: %q}}\n", filepath.Join(root, "x/alliance/types/zz_keylayer_test.go"), src)
	ov.Close()
	cmd := exec.Command("go", "test", "-overlay", ov.Name(), "-vet=off", "-count=1", "-timeout", "600s", "-run", "TestKeyLayer", "./x/alliance/types/")
	cmd.Dir = root
	cmd.Env = append(os.Environ(), "GOFLAGS=-mod=mod", "GOPROXY=off", "GOSUMDB=off", "GOTOOLCHAIN=local")
	b, err := cmd.CombinedOutput()
	out := string(b)
	res := keyLayerResult{out: out, secs: time.Since(t0).Seconds()}
	if err == nil && strings.Contains(out, "ok ") {
		res.status = "passed"
		return res
	}
	for _, l := range strings.Split(out, "\n") {
		l = strings.TrimSpace(l)
		if strings.HasPrefix(l, "--- FAIL: TestKeyLayer/") {
			res.failed = append(res.failed, strings.Fields(strings.TrimPrefix(l, "--- FAIL: TestKeyLayer/"))[0])
		}
	}
	if len(res.failed) > 0 {
		res.status = "failed"
	} else {
		res.status = "could not build or run: " + firstLine(out)
		if strings.Contains(out, "FAIL") && strings.Contains(out, "build failed") || strings.Contains(out, "cannot") {
			res.status = "failed"
			res.failed = []string{"does-not-build"}
		}
	}
	return res
}

func firstLine(s string) string {
	if i := strings.Index(s, "\n"); i >= 0 {
		return s[:i]
	}
	return s
}

var _ = strings.TrimSpace
