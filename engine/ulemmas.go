package main

import (
	"fmt"
	"os"
	"sync"
)

// proveUAxioms proves every axiom of reading U (smt.go: uAxiomList) as a lemma in reading E, where Mul/Quo/MulInt/QuoInt/RoundInt/MulTruncate
// are the exact fixed-point definitions transcribed from cosmossdk.io/math: reading U is then a sound abstraction of E.
type uLemmaResult struct {
	Name   string
	Status string
	Solver string
	Ms     int64
}

func proveUAxioms(timeoutS, seed int) []uLemmaResult {
	out := make([]uLemmaResult, len(uAxiomList))
	var wg sync.WaitGroup
	for i, a := range uAxiomList {
		wg.Add(1)
		go func(i int, name, ax string) {
			defer wg.Done()
			q := Prelude(ReadE) + "(assert (not " + ax + "))\n(check-sat)\n"
			r := Solve(q, timeoutS, seed, false, false)
			out[i] = uLemmaResult{Name: name, Status: r.Status, Solver: r.Solver, Ms: r.Ms}
		}(i, a.Name, a.Ax)
	}
	wg.Wait()
	return out
}

func runULemmas() int {
	rc := 0
	for _, r := range proveUAxioms(30, 1) {
		st := "proved"
		if r.Status != "unsat" {
			st = "NOT PROVED (" + r.Status + ")"
			rc = 1
		}
		fmt.Fprintf(os.Stdout, "  U-axiom %-20s %s %dms %s\n", r.Name, st, r.Ms, r.Solver)
	}
	return rc
}
