package main

import (
	"encoding/json"
	"fmt"
	"os"
	"path/filepath"
	"sort"
	"strconv"
	"strings"
	"sync"
	"time"
)

type OblResult struct {
	Name      string   `json:"name"`
	Func      string   `json:"func"`
	Kind      string   `json:"kind"`
	Reading   string   `json:"reading"`
	Props     []string `json:"props"`
	Instances int      `json:"path_instances"`
	Status    string   `json:"status"` // discharged | failed
	Solver    string   `json:"solver"`
	Ms        int64    `json:"ms"`
	Src       string   `json:"clause,omitempty"`
	FailInfo  string   `json:"fail_info,omitempty"`
	failQuery string
	failModel string
	failPath  string
	solverOut string
	trivial   bool
}

func hasProp(props []string, p string) bool {
	if p == "" {
		return true
	}
	for _, q := range props {
		if q == p {
			return true
		}
	}
	return false
}

type runCfg struct {
	TimeoutS int
	Seed     int
	Prop     string
	Jobs     int
	DumpDir  string
	Verbose  bool
}

// solveAll decides the obligations (filtered by property), grouped by name.
func (E *Engine) solveAll(cfg runCfg) []*OblResult {
	type job struct {
		o   *Obligation
		res SolveResult
		q   string
	}
	var jobs []*job
	for _, o := range E.Obls {
		if !hasProp(o.Props, cfg.Prop) {
			continue
		}
		jobs = append(jobs, &job{o: o})
	}
	var wg sync.WaitGroup
	var fmu sync.Mutex
	failedNames := map[string]bool{}
	sem := make(chan struct{}, cfg.Jobs)
	// instances of one obligation on many paths are first tried together: one query asserting the hypotheses common to all of them and the
	// disjunction of (path-specific hypotheses and negated goal); unsat there discharges every instance. Anything else falls back to one
	// query per instance, which is what names the failing path.
	solveOne := func(j *job) {
			fmu.Lock()
			skip := failedNames[j.o.Name]
			fmu.Unlock()
			if skip {
				j.res = SolveResult{Status: "skipped", Solver: "-"}
				return
			}
			defer func() {
				if j.res.Status != "unsat" {
					fmu.Lock()
					failedNames[j.o.Name] = true
					fmu.Unlock()
				}
			}()
			tmo := cfg.TimeoutS
			if E.knownFailing(j.o.Name) {
				tmo = 2 // a recorded finding: only confirm quickly that it still does not discharge
			}
			j.q = E.buildQuery(j.o.Reading, j.o.Hyps, j.o.Goal)
			if d := os.Getenv("GVC_DUMPALL"); d != "" {
				os.MkdirAll(d, 0o755)
				writeFile(filepath.Join(d, sanitize(j.o.Name)+fmt.Sprintf("_%p.smt2", j)), j.q)
			}
			j.res = Solve(j.q, tmo, cfg.Seed, j.o.Z3Ext || strings.Contains(j.q, "(_ map "), false)
			if j.res.Status == "unsat" {
				j.q = "" // only failing queries are kept (memory: thousands of path instances)
				j.res.Output = ""
				return
			}
			if tmo != cfg.TimeoutS {
				return
			}
			// a U-obligation that fails is retried in E before it is reported (U abstracts E)
			if j.o.Reading == ReadU {
				q2 := E.buildQuery(ReadE, j.o.Hyps, j.o.Goal)
				r2 := Solve(q2, cfg.TimeoutS, cfg.Seed, j.o.Z3Ext || strings.Contains(q2, "(_ map "), false)
				if r2.Status == "unsat" {
					r2.Solver += " (reading E after U failed)"
					j.res = r2
					j.q = q2
					return
				}
				if j.res.Status != "sat" && r2.Status == "sat" {
					j.res, j.q = r2, q2
				}
			}
			if j.res.Status == "sat" {
				// fetch a model
				rm := Solve(j.q, cfg.TimeoutS, cfg.Seed, true, true)
				if rm.Status == "sat" {
					j.res.Model = rm.Model
				}
			} else {
				// candidate counterexample: drop the quantified hypotheses (weaker assumptions => the model may be
				// spurious; only a replay on the real code makes it a confirmed failing input)
				var kept []string
				for _, ln := range strings.Split(j.q, "\n") {
					if strings.HasPrefix(ln, "(assert") && (strings.Contains(ln, "(forall") || strings.Contains(ln, "(exists")) {
						continue
					}
					kept = append(kept, ln)
				}
				rm := Solve(strings.Join(kept, "\n"), 5, cfg.Seed, true, true)
				if rm.Status == "sat" {
					j.res.Model = "; candidate model (quantified hypotheses dropped)\n" + rm.Model
				}
			}
	}
	batched := map[*job]bool{}
	if os.Getenv("GVC_NOBATCH") == "" && os.Getenv("GVC_DUMPALL") == "" {
		groups := map[string][]*job{}
		var order []string
		for _, j := range jobs {
			if _, ok := groups[j.o.Name]; !ok {
				order = append(order, j.o.Name)
			}
			groups[j.o.Name] = append(groups[j.o.Name], j)
		}
		for _, name := range order {
			g := groups[name]
			if len(g) < 6 || E.knownFailing(name) {
				continue
			}
			for i := 0; i < len(g); i += 12 {
				chunk := g[i:min(i+12, len(g))]
				if len(chunk) < 2 {
					continue
				}
				for _, j := range chunk {
					batched[j] = true
				}
				wg.Add(1)
				sem <- struct{}{}
				go func(chunk []*job) {
					defer wg.Done()
					defer func() { <-sem }()
					obls := make([]*Obligation, len(chunk))
					ext := false
					for i, j := range chunk {
						obls[i] = j.o
						ext = ext || j.o.Z3Ext
					}
					q := E.buildBatchQuery(chunk[0].o.Reading, obls)
					r := Solve(q, cfg.TimeoutS, cfg.Seed, ext || strings.Contains(q, "(_ map "), false)
					if r.Status == "unsat" {
						for _, j := range chunk {
							j.res = SolveResult{Status: "unsat", Solver: r.Solver, Ms: r.Ms / int64(len(chunk))}
						}
						return
					}
					for _, j := range chunk {
						solveOne(j)
					}
				}(chunk)
			}
		}
	}
	for _, j := range jobs {
		if batched[j] {
			continue
		}
		wg.Add(1)
		sem <- struct{}{}
		go func(j *job) {
			defer wg.Done()
			defer func() { <-sem }()
			solveOne(j)
		}(j)
	}
	wg.Wait()
	byName := map[string]*OblResult{}
	var order []string
	for _, j := range jobs {
		r := byName[j.o.Name]
		if r == nil {
			r = &OblResult{Name: j.o.Name, Func: j.o.Func, Kind: j.o.Kind, Reading: string(j.o.Reading), Props: j.o.Props, Status: "discharged", Src: j.o.Src}
			byName[j.o.Name] = r
			order = append(order, j.o.Name)
		}
		r.Instances++
		r.Ms += j.res.Ms
		if r.Solver == "" {
			r.Solver = j.res.Solver
		}
		if j.res.Status == "skipped" {
			if r.Status == "discharged" {
				r.Status = "failed"
				r.FailInfo = "another path instance failed"
			}
			continue
		}
		if j.res.Status != "unsat" && (r.Status == "discharged" || r.failQuery == "") {
			r.Status = "failed"
			r.FailInfo = j.res.Status + " by " + j.res.Solver
			r.failQuery = j.q
			r.failModel = j.res.Model
			r.failPath = j.o.Path
			r.solverOut = j.res.Output
			r.Solver = j.res.Solver
		}
	}
	// obligations all of whose instances folded to true syntactically
	for key, cl := range E.Trivial {
		if !hasProp(cl.Props, cfg.Prop) {
			continue
		}
		if _, ok := byName[key]; ok {
			continue
		}
		fn := key[:strings.Index(key, ":post:")]
		byName[key] = &OblResult{Name: key, Func: fn, Kind: "post", Reading: string(cl.Reading), Props: cl.Props, Status: "discharged", Solver: "syntactic", Src: cl.Src, trivial: true}
		order = append(order, key)
	}
	sort.Strings(order)
	var out []*OblResult
	for _, n := range order {
		out = append(out, byName[n])
	}
	return out
}

func loadEngine(root string) (*Engine, error) {
	P, err := Load(root)
	if err != nil {
		return nil, err
	}
	lines := P.ContractLines()
	specs := ParseSpecs(lines)
	E := NewEngine(P, specs)
	E.registerCoinTypes()
	return E, nil
}

func runCLI(args []string) int {
	root := os.Getenv("GVC_REPO")
	if root == "" {
		root = "/repo"
	}
	switch args[0] {
	case "funcs":
		P, err := Load(root)
		if err != nil {
			fmt.Fprintln(os.Stderr, err)
			return 2
		}
		for _, n := range P.FuncNames() {
			fmt.Println(n)
		}
		return 0
	case "ulemmas":
		return runULemmas()
	case "verify":
		E, err := loadEngine(root)
		if err != nil {
			fmt.Fprintln(os.Stderr, err)
			return 2
		}
		for _, e := range E.Specs.Errors {
			fmt.Println("SPEC ERROR:", e)
		}
		cfg := runCfg{TimeoutS: 10, Seed: 1, Jobs: 16}
		var names []string
		for _, a := range args[1:] {
			if strings.HasPrefix(a, "--prop=") {
				cfg.Prop = a[7:]
			} else if strings.HasPrefix(a, "--timeout=") {
				cfg.TimeoutS, _ = strconv.Atoi(a[10:])
			} else if a == "-v" {
				cfg.Verbose = true
			} else if strings.HasPrefix(a, "--dump=") {
				cfg.DumpDir = a[7:]
			} else {
				names = append(names, a)
			}
		}
		if len(names) == 0 {
			for n := range E.Specs.Contracts {
				names = append(names, n)
			}
			sort.Strings(names)
		}
		t0 := time.Now()
		for _, n := range names {
			rep := E.VerifyFunc(n)
			fmt.Printf("== %s: paths=%d obligations(instances)=%d", n, rep.Paths, rep.NObls)
			if rep.Unsupp != "" {
				fmt.Printf("  NOT TRANSLATED: %s", rep.Unsupp)
			}
			fmt.Println()
			if rep.Unsupp != "" {
				if c := E.Specs.Contracts[n]; c != nil && !c.Trusted {
					fmt.Printf("FAILED-OBLIGATION %s:not-translated props=%s\n", n, strings.Join(allProps(c), ","))
				}
			}
		}
		if len(names) == 0 || os.Getenv("GVC_LEMMAS") != "" {
			_, lerrs := E.GenLemmas(cfg.Prop)
			for _, le := range lerrs {
				fmt.Println("LEMMA ERROR:", le)
			}
		}
		fmt.Printf("generation: %.1fs\n", time.Since(t0).Seconds())
		res := E.solveAll(cfg)
		nfail := 0
		for _, r := range res {
			fmt.Printf("  %-9s %-70s [%s] x%d %dms %s %s\n", r.Status, r.Name, r.Reading, r.Instances, r.Ms, r.Solver, r.FailInfo)
			if r.Status != "discharged" {
				nfail++
				fmt.Printf("FAILED-OBLIGATION %s props=%s\n", r.Name, strings.Join(r.Props, ","))
				if cfg.DumpDir != "" {
					os.MkdirAll(cfg.DumpDir, 0o755)
					fn := filepath.Join(cfg.DumpDir, sanitize(r.Name)+".smt2")
					writeFile(fn, r.failQuery)
					writeFile(fn+".out", "path: "+r.failPath+"\n"+r.solverOut+"\n"+r.failModel)
				}
				if cfg.Verbose {
					fmt.Println("     clause:", r.Src)
					fmt.Println("     path:", r.failPath)
				}
			}
		}
		fmt.Printf("total: %d obligations, %d failed, %.1fs\n", len(res), nfail, time.Since(t0).Seconds())
		if nfail > 0 {
			return 1
		}
		return 0
	case "check":
		return runCheck(root, args[1:])
	}
	fmt.Fprintln(os.Stderr, "unknown command", args[0])
	return 2
}

func jsonOut(path string, v interface{}) error {
	b, err := json.MarshalIndent(v, "", " ")
	if err != nil {
		return err
	}
	os.MkdirAll(filepath.Dir(path), 0o755)
	return os.WriteFile(path, append(b, '\n'), 0o644)
}
