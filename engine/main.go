package main

import (
	"fmt"
	"os"
)

func main() {
	if len(os.Args) < 2 {
		fmt.Fprintln(os.Stderr, "usage: gvc <check|funcs|verify|lemmas|effect> ...")
		os.Exit(2)
	}
	os.Exit(runCLI(os.Args[1:]))
}
