package main

import (
	"fmt"
	"strconv"
	"strings"
	"unicode"
)

// ---------- contract blocks ----------

type Clause struct {
	Kind    string // requires | demands | ensures | invariant
	Uses    []string
	HasUses bool
	CallSiteOnly bool // demands: checked at call sites (and then assumed there), NOT assumed when verifying the body
	Assumed bool // ensures {assumed}: given to callers, NOT checked against the body (listed as an assumption)
	Props   []string
	Reading Reading
	Label   string
	Src     string
	Expr    *Expr
	File    string
	Line    int
}

type Contract struct {
	Func     string
	Requires []*Clause
	Ensures  []*Clause
	Modifies []string
	Sweep    []string // properties that claim the safe:* obligations of this function
	PrunePaths bool
	SliceHavoc bool
	Modular  bool     // callers use the contract instead of inlining the body
	Trusted  bool     // contract assumed, body not verified (must be justified in DESIGN.md; listed in evidence)
	Params   []string // optional names for parameters/results used by the clauses: "params(a,b) results(r,err)"
	Results  []string
	Loops    map[string]*LoopSpec // key: "#k" or "callee#k" for loops in inlined helpers
	Unroll   int
	File     string
	Line     int
	Lets     []*LetDef
	Sums     bool // ghost sums UT/UTA are maintained while verifying this function
	Covers   []string // extra properties whose obligations (callee demands) arise inside this function
	Promote  map[string][]string // callee-demand label -> further properties it is claimed under in this function
	Hints    []*HintAt // lemma-instance hints (use_* only) assumed right after a call site
	Asserts  []*AssertAt // obligations evaluated just before a call site
}

type AssertAt struct {
	Site string
	Cl   *Clause
}

type HintAt struct {
	Site string // "<func>/<callee>#<k>" as in obligation names
	Expr *Expr
	Src  string
}

type LetDef struct {
	Name string
	Expr *Expr
	Src  string
}

type LoopSpec struct {
	Key        string
	Invariants []*Clause
	Unroll     int
	Lets       []*LetDef
}

type PureDef struct {
	Name   string
	Params []string
	Body   *Expr
	Src    string
}

type SpecDB struct {
	Lemmas    []*Clause
	Contracts map[string]*Contract
	Pures     map[string]*PureDef
	Errors    []string
}

var clauseKeywords = map[string]bool{"func": true, "loop": true, "requires": true, "ensures": true, "modifies": true,
	"sweep": true, "modular": true, "trusted": true, "invariant": true, "pure": true, "unroll": true, "names": true, "let": true, "end": true, "sums": true, "demands": true, "covers": true, "promote": true, "hint": true, "lemma": true, "prunepaths": true, "asserts": true, "slicehavoc": true}

func ParseSpecs(lines []SpecLine) *SpecDB {
	db := &SpecDB{Contracts: map[string]*Contract{}, Pures: map[string]*PureDef{}}
	// join continuation lines
	type item struct {
		SpecLine
		kw   string
		rest string
	}
	var items []item
	for _, l := range lines {
		t := l.Text
		if t == "" {
			continue
		}
		kw := t
		rest := ""
		if i := strings.IndexAny(t, " \t"); i >= 0 {
			kw, rest = t[:i], strings.TrimSpace(t[i+1:])
		}
		if clauseKeywords[kw] {
			items = append(items, item{l, kw, rest})
		} else if len(items) > 0 {
			items[len(items)-1].rest += " " + t
		} else {
			db.Errors = append(db.Errors, fmt.Sprintf("%s:%d: stray contract line %q", l.File, l.Line, t))
		}
	}
	var cur *Contract
	var curLoop *LoopSpec
	errf := func(it item, f string, a ...interface{}) {
		db.Errors = append(db.Errors, fmt.Sprintf("%s:%d: %s", it.File, it.Line, fmt.Sprintf(f, a...)))
	}
	for _, it := range items {
		switch it.kw {
		case "func":
			name := strings.Fields(it.rest)[0]
			if _, dup := db.Contracts[name]; dup {
				errf(it, "duplicate contract for %s", name)
			}
			cur = &Contract{Func: name, Loops: map[string]*LoopSpec{}, File: it.File, Line: it.Line}
			db.Contracts[name] = cur
			curLoop = nil
		case "loop":
			// loop <func>#k  or  loop <func> > <callee>#k
			spec := strings.ReplaceAll(it.rest, " ", "")
			fn := spec
			key := ""
			if i := strings.Index(spec, ">"); i >= 0 {
				fn = spec[:i]
				key = spec[i+1:]
			} else if i := strings.LastIndex(spec, "#"); i >= 0 {
				fn = spec[:i]
				key = spec[i:]
			}
			c := db.Contracts[fn]
			if c == nil {
				errf(it, "loop block for %s before its func block", fn)
				c = &Contract{Func: fn, Loops: map[string]*LoopSpec{}}
				db.Contracts[fn] = c
			}
			cur = c
			curLoop = &LoopSpec{Key: key}
			c.Loops[key] = curLoop
		case "end":
			curLoop = nil
		case "lemma":
			cl, err := parseClause("lemma", it.rest)
			if err != nil {
				errf(it, "%v", err)
				continue
			}
			cl.File, cl.Line = it.File, it.Line
			db.Lemmas = append(db.Lemmas, cl)
		case "requires", "ensures", "invariant", "demands":
			if cur == nil {
				errf(it, "%s outside a func block", it.kw)
				continue
			}
			cl, err := parseClause(it.kw, it.rest)
			if err != nil {
				errf(it, "%v", err)
				continue
			}
			cl.File, cl.Line = it.File, it.Line
			switch it.kw {
			case "demands":
				cl.CallSiteOnly = true
				cur.Requires = append(cur.Requires, cl)
			case "requires":
				cur.Requires = append(cur.Requires, cl)
			case "ensures":
				cur.Ensures = append(cur.Ensures, cl)
			case "invariant":
				if curLoop == nil {
					errf(it, "invariant outside a loop block")
					continue
				}
				curLoop.Invariants = append(curLoop.Invariants, cl)
			}
		case "let":
			i := strings.Index(it.rest, "=")
			if i < 0 || cur == nil {
				errf(it, "bad let")
				continue
			}
			name := strings.TrimSpace(it.rest[:i])
			e, err := ParseExpr(it.rest[i+1:])
			if err != nil {
				errf(it, "let %s: %v", name, err)
				continue
			}
			ld := &LetDef{Name: name, Expr: e, Src: it.rest}
			if curLoop != nil {
				curLoop.Lets = append(curLoop.Lets, ld)
			} else {
				cur.Lets = append(cur.Lets, ld)
			}
		case "modifies":
			for _, m := range strings.Split(it.rest, ",") {
				if m = strings.TrimSpace(m); m != "" {
					cur.Modifies = append(cur.Modifies, m)
				}
			}
		case "sweep":
			cur.Sweep = append(cur.Sweep, parseProps(it.rest)...)
		case "sums":
			cur.Sums = true
		case "slicehavoc":
			// stores through &slice[i] are over-approximated in this function: the contents (not the lengths) of every live slice of that
			// element type are havocked (backing-array aliasing is not modelled). Sound for whatever is proved; clauses that depend on the
			// written contents cannot be proved and must be marked {assumed}.
			cur.SliceHavoc = true
		case "prunepaths":
			// ask the solver whether a path is feasible when it reaches a loop with invariants; infeasible paths are dropped (sound:
			// an unsatisfiable path condition has no executions). Used where preconditions rule out most syntactic paths.
			cur.PrunePaths = true
		case "covers":
			cur.Covers = append(cur.Covers, parseProps(it.rest)...)
		case "promote":
			// promote [C08] label...: callee demands with these labels that arise in this function are ALSO claimed under the listed properties
			rest := strings.TrimSpace(it.rest)
			i := strings.Index(rest, "]")
			if !strings.HasPrefix(rest, "[") || i < 0 {
				errf(it, "promote [props] label...")
				break
			}
			if cur.Promote == nil {
				cur.Promote = map[string][]string{}
			}
			for _, lab := range strings.Fields(rest[i+1:]) {
				cur.Promote[lab] = append(cur.Promote[lab], parseProps(rest[:i+1])...)
			}
		case "hint":
			// hint <site> : <expr built from use_* only>
			i := strings.Index(it.rest, ":")
			if i < 0 {
				errf(it, "hint <site>: <expr>")
				continue
			}
			e, err := ParseExpr(it.rest[i+1:])
			if err != nil {
				errf(it, "hint: %v", err)
				continue
			}
			cur.Hints = append(cur.Hints, &HintAt{Site: strings.TrimSpace(it.rest[:i]), Expr: e, Src: it.rest})
		case "asserts":
			// asserts <site> :: [props] label: expr  -- an obligation evaluated in the state just before the call at <site> (checked, not assumed)
			i := strings.Index(it.rest, "::")
			if i < 0 || cur == nil {
				errf(it, "asserts <site> :: [props] label: expr")
				continue
			}
			cl, err := parseClause("asserts", it.rest[i+2:])
			if err != nil {
				errf(it, "asserts: %v", err)
				continue
			}
			cl.File, cl.Line = it.File, it.Line
			cur.Asserts = append(cur.Asserts, &AssertAt{Site: strings.TrimSpace(it.rest[:i]), Cl: cl})
		case "modular":
			cur.Modular = true
		case "trusted":
			cur.Trusted = true
			cur.Modular = true
		case "unroll":
			n, _ := strconv.Atoi(strings.TrimSpace(it.rest))
			if curLoop != nil {
				curLoop.Unroll = n
			} else if cur != nil {
				cur.Unroll = n
			}
		case "names":
			// names (a, b, c) (r, err)
			parts := strings.SplitN(it.rest, ")", 2)
			cur.Params = splitNames(parts[0])
			if len(parts) > 1 {
				cur.Results = splitNames(parts[1])
			}
		case "pure":
			// pure name(a, b) = expr
			i := strings.Index(it.rest, "=")
			if i < 0 {
				errf(it, "pure without body")
				continue
			}
			head, body := it.rest[:i], it.rest[i+1:]
			j := strings.Index(head, "(")
			if j < 0 {
				errf(it, "pure without parameter list")
				continue
			}
			name := strings.TrimSpace(head[:j])
			e, err := ParseExpr(body)
			if err != nil {
				errf(it, "pure %s: %v", name, err)
				continue
			}
			db.Pures[name] = &PureDef{Name: name, Params: splitNames(head[j:]), Body: e, Src: it.rest}
		}
	}
	return db
}

func splitNames(s string) []string {
	s = strings.NewReplacer("(", " ", ")", " ", ",", " ").Replace(s)
	return strings.Fields(s)
}

func parseProps(s string) []string {
	s = strings.NewReplacer("[", " ", "]", " ", ",", " ").Replace(s)
	return strings.Fields(s)
}

// parseClause parses "[C01 C03] {E} label: expr".
func parseClause(kind, s string) (*Clause, error) {
	cl := &Clause{Kind: kind, Reading: ReadU}
	s = strings.TrimSpace(s)
	if strings.HasPrefix(s, "[") {
		i := strings.Index(s, "]")
		if i < 0 {
			return nil, fmt.Errorf("unterminated property list")
		}
		cl.Props = parseProps(s[:i+1])
		s = strings.TrimSpace(s[i+1:])
	}
	for strings.HasPrefix(s, "{") {
		i := strings.Index(s, "}")
		opt := strings.TrimSpace(s[1:i])
		if strings.HasPrefix(opt, "uses") {
			// {uses a b c}: this loop invariant is preserved using only the named invariants of the same loop
			cl.Uses = strings.Fields(strings.ReplaceAll(opt[4:], ",", " "))
			cl.HasUses = true
		} else if opt == "assumed" {
			cl.Assumed = true
		} else {
			cl.Reading = Reading(opt)
		}
		s = strings.TrimSpace(s[i+1:])
	}
	// label: an identifier followed by ':' (not '::')
	for i, c := range s {
		if c == ':' {
			if i+1 < len(s) && s[i+1] == ':' {
				break
			}
			lab := s[:i]
			ok := lab != ""
			for _, r := range lab {
				if !(unicode.IsLetter(r) || unicode.IsDigit(r) || r == '_' || r == '-') {
					ok = false
				}
			}
			if ok {
				cl.Label = lab
				s = strings.TrimSpace(s[i+1:])
			}
			break
		}
		if !(unicode.IsLetter(c) || unicode.IsDigit(c) || c == '_' || c == '-') {
			break
		}
	}
	cl.Src = s
	e, err := ParseExpr(s)
	if err != nil {
		return nil, fmt.Errorf("%s %q: %v", kind, s, err)
	}
	cl.Expr = e
	return cl, nil
}

// ---------- expressions ----------

type Expr struct {
	Op   string // num, str, id, call, field, index, un, bin, quant, old
	Name string
	Args []*Expr
	// quant
	Vars  []string
	Sorts []string
	Pos   int
}

type tok struct {
	k string // num id str op eof
	s string
	p int
}

func lex(s string) ([]tok, error) {
	var out []tok
	i := 0
	for i < len(s) {
		c := s[i]
		switch {
		case c == ' ' || c == '\t' || c == '\n':
			i++
		case c >= '0' && c <= '9':
			j := i
			for j < len(s) && (s[j] >= '0' && s[j] <= '9' || s[j] == '_') {
				j++
			}
			// decimal literal 0.5d
			if j < len(s) && s[j] == '.' && j+1 < len(s) && s[j+1] >= '0' && s[j+1] <= '9' {
				j++
				for j < len(s) && s[j] >= '0' && s[j] <= '9' {
					j++
				}
			}
			if j < len(s) && s[j] == 'd' {
				j++
			}
			out = append(out, tok{"num", strings.ReplaceAll(s[i:j], "_", ""), i})
			i = j
		case c == '"':
			j := i + 1
			for j < len(s) && s[j] != '"' {
				j++
			}
			if j >= len(s) {
				return nil, fmt.Errorf("unterminated string at %d", i)
			}
			out = append(out, tok{"str", s[i+1 : j], i})
			i = j + 1
		case unicode.IsLetter(rune(c)) || c == '_' || c == '#' || c == '$':
			j := i + 1
			for j < len(s) && (unicode.IsLetter(rune(s[j])) || unicode.IsDigit(rune(s[j])) || s[j] == '_' || s[j] == '#' || s[j] == '$' || s[j] == '\'') {
				j++
			}
			out = append(out, tok{"id", s[i:j], i})
			i = j
		default:
			three := ""
			if i+3 <= len(s) {
				three = s[i : i+3]
			}
			two := ""
			if i+2 <= len(s) {
				two = s[i : i+2]
			}
			switch {
			case three == "==>" || three == "<=>":
				out = append(out, tok{"op", three, i})
				i += 3
			case two == "==" || two == "!=" || two == "<=" || two == ">=" || two == "&&" || two == "||" || two == "::":
				out = append(out, tok{"op", two, i})
				i += 2
			case strings.ContainsRune("()[]{}.,+-*/%<>!:", rune(c)):
				out = append(out, tok{"op", string(c), i})
				i++
			default:
				return nil, fmt.Errorf("unexpected character %q at %d", c, i)
			}
		}
	}
	out = append(out, tok{"eof", "", len(s)})
	return out, nil
}

type parser struct {
	toks []tok
	i    int
}

func ParseExpr(s string) (*Expr, error) {
	toks, err := lex(s)
	if err != nil {
		return nil, err
	}
	p := &parser{toks: toks}
	e, err := p.expr()
	if err != nil {
		return nil, err
	}
	if p.peek().k != "eof" {
		return nil, fmt.Errorf("trailing input at %d: %q", p.peek().p, p.peek().s)
	}
	return e, nil
}

func (p *parser) peek() tok { return p.toks[p.i] }
func (p *parser) next() tok { t := p.toks[p.i]; p.i++; return t }
func (p *parser) isOp(s string) bool {
	t := p.peek()
	return t.k == "op" && t.s == s
}
func (p *parser) expect(s string) error {
	if !p.isOp(s) {
		return fmt.Errorf("expected %q at %d, found %q", s, p.peek().p, p.peek().s)
	}
	p.i++
	return nil
}

func (p *parser) expr() (*Expr, error) {
	t := p.peek()
	if t.k == "id" && (t.s == "forall" || t.s == "exists") {
		p.next()
		q := &Expr{Op: "quant", Name: t.s, Pos: t.p}
		for {
			v := p.next()
			if v.k != "id" {
				return nil, fmt.Errorf("quantifier: expected variable at %d", v.p)
			}
			if err := p.expect(":"); err != nil {
				return nil, err
			}
			s := p.next()
			if s.k != "id" {
				return nil, fmt.Errorf("quantifier: expected sort at %d", s.p)
			}
			q.Vars = append(q.Vars, v.s)
			q.Sorts = append(q.Sorts, s.s)
			if p.isOp(",") {
				p.next()
				continue
			}
			break
		}
		if err := p.expect("::"); err != nil {
			return nil, err
		}
		body, err := p.expr()
		if err != nil {
			return nil, err
		}
		q.Args = []*Expr{body}
		return q, nil
	}
	return p.iff()
}

func (p *parser) iff() (*Expr, error) {
	l, err := p.impl()
	if err != nil {
		return nil, err
	}
	for p.isOp("<=>") {
		p.next()
		r, err := p.impl()
		if err != nil {
			return nil, err
		}
		l = &Expr{Op: "bin", Name: "<=>", Args: []*Expr{l, r}}
	}
	return l, nil
}

func (p *parser) impl() (*Expr, error) {
	l, err := p.or()
	if err != nil {
		return nil, err
	}
	if p.isOp("==>") {
		p.next()
		var r *Expr
		// allow a quantifier on the right of ==>
		if t := p.peek(); t.k == "id" && (t.s == "forall" || t.s == "exists") {
			r, err = p.expr()
		} else {
			r, err = p.impl()
		}
		if err != nil {
			return nil, err
		}
		return &Expr{Op: "bin", Name: "==>", Args: []*Expr{l, r}}, nil
	}
	return l, nil
}

func (p *parser) or() (*Expr, error) {
	l, err := p.and()
	if err != nil {
		return nil, err
	}
	for p.isOp("||") {
		p.next()
		r, err := p.and()
		if err != nil {
			return nil, err
		}
		l = &Expr{Op: "bin", Name: "||", Args: []*Expr{l, r}}
	}
	return l, nil
}

func (p *parser) and() (*Expr, error) {
	l, err := p.cmp()
	if err != nil {
		return nil, err
	}
	for p.isOp("&&") {
		p.next()
		r, err := p.cmp()
		if err != nil {
			return nil, err
		}
		l = &Expr{Op: "bin", Name: "&&", Args: []*Expr{l, r}}
	}
	return l, nil
}

func (p *parser) cmp() (*Expr, error) {
	l, err := p.add()
	if err != nil {
		return nil, err
	}
	for _, op := range []string{"==", "!=", "<=", ">=", "<", ">"} {
		if p.isOp(op) {
			p.next()
			r, err := p.add()
			if err != nil {
				return nil, err
			}
			return &Expr{Op: "bin", Name: op, Args: []*Expr{l, r}}, nil
		}
	}
	return l, nil
}

func (p *parser) add() (*Expr, error) {
	l, err := p.mul()
	if err != nil {
		return nil, err
	}
	for p.isOp("+") || p.isOp("-") {
		op := p.next().s
		r, err := p.mul()
		if err != nil {
			return nil, err
		}
		l = &Expr{Op: "bin", Name: op, Args: []*Expr{l, r}}
	}
	return l, nil
}

func (p *parser) mul() (*Expr, error) {
	l, err := p.unary()
	if err != nil {
		return nil, err
	}
	for p.isOp("*") || p.isOp("/") || p.isOp("%") {
		op := p.next().s
		r, err := p.unary()
		if err != nil {
			return nil, err
		}
		l = &Expr{Op: "bin", Name: op, Args: []*Expr{l, r}}
	}
	return l, nil
}

func (p *parser) unary() (*Expr, error) {
	if t := p.peek(); t.k == "id" && (t.s == "forall" || t.s == "exists") {
		// a quantifier as an operand extends as far to the right as possible
		return p.expr()
	}
	if p.isOp("!") || p.isOp("-") {
		op := p.next().s
		x, err := p.unary()
		if err != nil {
			return nil, err
		}
		return &Expr{Op: "un", Name: op, Args: []*Expr{x}}, nil
	}
	return p.postfix()
}

func (p *parser) postfix() (*Expr, error) {
	x, err := p.primary()
	if err != nil {
		return nil, err
	}
	for {
		switch {
		case p.isOp("."):
			p.next()
			t := p.next()
			if t.k != "id" {
				return nil, fmt.Errorf("expected field name at %d", t.p)
			}
			x = &Expr{Op: "field", Name: t.s, Args: []*Expr{x}}
		case p.isOp("["):
			p.next()
			i, err := p.expr()
			if err != nil {
				return nil, err
			}
			if err := p.expect("]"); err != nil {
				return nil, err
			}
			x = &Expr{Op: "index", Args: []*Expr{x, i}}
		case p.isOp("("):
			if x.Op != "id" {
				return x, nil
			}
			p.next()
			var args []*Expr
			for !p.isOp(")") {
				a, err := p.expr()
				if err != nil {
					return nil, err
				}
				args = append(args, a)
				if p.isOp(",") {
					p.next()
				} else {
					break
				}
			}
			if err := p.expect(")"); err != nil {
				return nil, err
			}
			x = &Expr{Op: "call", Name: x.Name, Args: args, Pos: x.Pos}
		default:
			return x, nil
		}
	}
}

func (p *parser) primary() (*Expr, error) {
	t := p.next()
	switch t.k {
	case "num":
		return &Expr{Op: "num", Name: t.s, Pos: t.p}, nil
	case "str":
		return &Expr{Op: "str", Name: t.s, Pos: t.p}, nil
	case "id":
		return &Expr{Op: "id", Name: t.s, Pos: t.p}, nil
	case "op":
		if t.s == "(" {
			e, err := p.expr()
			if err != nil {
				return nil, err
			}
			if err := p.expect(")"); err != nil {
				return nil, err
			}
			return e, nil
		}
	}
	return nil, fmt.Errorf("unexpected %q at %d", t.s, t.p)
}
