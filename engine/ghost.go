package main

// Ghost views over the store (sums over unbounded maps, DESIGN.md 3.5). Filled in by ghost_sums.go hooks.

var ghostFuns = map[string]func(ev *Evaluator, args []*Term) Val{}
var ghostSorts = map[string]Sort{"pend": ArrSort(SBytes, ArrSort(SStr, SInt)), "stk": SInt}

// ghostOnWrite is called on every write S[k] := v with the store before the write.
func (m *Machine) ghostOnWrite(old *Term, k, v *Term) {
	for _, h := range ghostHooks {
		h(m, old, k, v)
	}
}

var ghostHooks []func(m *Machine, old *Term, k, v *Term)
