package main

import (
	"fmt"
	"go/types"
	"strings"
)

type typesType = types.Type

// Ghost views over the store (sums over unbounded maps, DESIGN.md 3.5).
//
//   UT(d)     = sum over all unbonding buckets (family 8) and their entries e with e.denom = d of e.amount
//   UTA(a,d)  = the same restricted to entries whose delegator address is a
//
// Both are state components maintained by the generator: a store write S[k] := v emits
//   UT'(d) = UT(d) - bs(S[k], d) + bs(v, d)      (and the analogue for UTA)
// where bs(bytes, d) is the sum over the entries of the decoded bucket (0 for nil bytes / other families).
// The only other built-in fact is the member bound (every present bucket is a summand of a sum of
// non-negative terms), emitted when a bucket is read.  Sums over entry lists are the uninterpreted
// function bsum(n, denoms, amounts, d) with step / prefix-frame / sign lemmas (proved by induction on n on
// paper; they are the two library lemmas `sum_append`, `sum_frame` of DESIGN.md plus sign).

var ghostFuns = map[string]func(ev *Evaluator, args []*Term) Val{}
var ghostSorts = map[string]Sort{
	"pend": ArrSort(SBytes, ArrSort(SStr, SInt)), "stk": SInt,
	"UT": ArrSort(SStr, SInt), "UTA": ArrSort(SBytes, ArrSort(SStr, SInt)),
	// C13 ghosts: settled[kDel(..)] = the position's reward indices equal the validator's current ones;
	// vsettled[val] = nothing is pending in x/distribution for the module's delegation to val
	"settled": ArrSort(SBytes, SBool), "vsettled": ArrSort(SBytes, SBool),
	// C11 effect ledgers: coins minted to / burnt from an account per denom, and tokens the staking module was asked to
	// bond for / reported as unbonded for a delegator (written only by the bank and staking models)
	"minted": ArrSort(SBytes, ArrSort(SStr, SInt)), "burned": ArrSort(SBytes, ArrSort(SStr, SInt)),
	"sdelegated": ArrSort(SBytes, SInt), "sunbonded": ArrSort(SBytes, SInt),
}

const (
	sArrIS = "(Array Int Str)"
	sArrII = "(Array Int Int)"
)

func (E *Engine) declSums() {
	D := E.D
	if _, done := D.seen["bsum"]; done {
		return
	}
	E.Assume("A-SUMS", "ghost sums UT/UTA over the unbonding buckets are maintained by the write rule sum' = sum - f(old cell) + f(new cell) and the member bound sum >= f(cell) for non-negative summands; list sums use the lemmas sum_step, sum_prefix_frame, sum_sign (induction on the list length, not machine-checked)")
	D.Fun("bsum", []Sort{SInt, sArrIS, sArrII, SStr}, SInt)
	D.Fun("bsumA", []Sort{SInt, sArrIS, sArrIS, sArrII, SBytes, SStr}, SInt)
	// step
	D.Axiom("(forall ((D (Array Int Str)) (A (Array Int Int)) (d Str)) (! (= (bsum 0 D A d) 0) :pattern ((bsum 0 D A d))))")
	D.Axiom("(forall ((n Int) (D (Array Int Str)) (A (Array Int Int)) (d Str)) (! (=> (>= n 0) (= (bsum (+ n 1) D A d) (+ (bsum n D A d) (ite (= (select D n) d) (select A n) 0)))) :pattern ((bsum (+ n 1) D A d))))")
	D.Axiom("(forall ((n Int) (D (Array Int Str)) (A (Array Int Int)) (d Str)) (! (=> (>= n 0) (= (bsum (+ 1 n) D A d) (+ (bsum n D A d) (ite (= (select D n) d) (select A n) 0)))) :pattern ((bsum (+ 1 n) D A d))))")
	// prefix frame with a witness for the first difference
	D.Fun("bsum_diff", []Sort{SInt, sArrIS, sArrII, sArrIS, sArrII}, SInt)
	D.Axiom("(forall ((n Int) (D (Array Int Str)) (A (Array Int Int)) (D2 (Array Int Str)) (A2 (Array Int Int)) (d Str)) (! (=> (not (= (bsum n D A d) (bsum n D2 A2 d))) (let ((w (bsum_diff n D A D2 A2))) (and (<= 0 w) (< w n) (or (not (= (select D w) (select D2 w))) (not (= (select A w) (select A2 w))))))) :pattern ((bsum n D A d) (bsum n D2 A2 d))))")
	// sign
	D.Fun("bsum_neg", []Sort{SInt, sArrIS, sArrII, SStr}, SInt)
	D.Axiom("(forall ((n Int) (D (Array Int Str)) (A (Array Int Int)) (d Str)) (! (=> (< (bsum n D A d) 0) (let ((w (bsum_neg n D A d))) (and (<= 0 w) (< w n) (< (select A w) 0)))) :pattern ((bsum n D A d))))")
	// monotone in the length for non-negative amounts (witness for a negative amount otherwise)
	D.Fun("bsum_mono", []Sort{SInt, SInt, sArrIS, sArrII, SStr}, SInt)
	D.Axiom("(forall ((n Int) (k Int) (D (Array Int Str)) (A (Array Int Int)) (d Str)) (! (=> (and (<= n k) (> (bsum n D A d) (bsum k D A d))) (let ((w (bsum_mono n k D A d))) (and (<= n w) (< w k) (< (select A w) 0)))) :pattern ((bsum_mono n k D A d))))")
	// element bound: a prefix plus the next element never exceeds a longer prefix (non-negative amounts)
	D.Fun("bsum_el", []Sort{SInt, SInt, sArrIS, sArrII, SStr}, SInt)
	D.Axiom("(forall ((n Int) (k Int) (D (Array Int Str)) (A (Array Int Int)) (d Str)) (! (=> (and (<= 0 n) (< n k) (> (+ (bsum n D A d) (ite (= (select D n) d) (select A n) 0)) (bsum k D A d))) (let ((w (bsum_el n k D A d))) (and (< n w) (< w k) (< (select A w) 0)))) :pattern ((bsum n D A d) (bsum k D A d))))")
	// linearity and point-wise order (witness forms)
	D.Fun("bsum_lin", []Sort{SInt, sArrIS, sArrII, sArrII, sArrII}, SInt)
	D.Axiom("(forall ((n Int) (D (Array Int Str)) (A (Array Int Int)) (B (Array Int Int)) (C (Array Int Int)) (d Str)) (! (=> (not (= (bsum n D A d) (- (bsum n D B d) (bsum n D C d)))) (let ((w (bsum_lin n D A B C))) (and (<= 0 w) (< w n) (not (= (select A w) (- (select B w) (select C w))))))) :pattern ((bsum_lin n D A B C) (bsum n D A d))))")
	// linearity across two denom arrays that agree on the prefix
	D.Fun("bsum_lin2", []Sort{SInt, sArrIS, sArrII, sArrIS, sArrII, sArrII}, SInt)
	D.Axiom("(forall ((n Int) (D2 (Array Int Str)) (A (Array Int Int)) (D (Array Int Str)) (B (Array Int Int)) (C (Array Int Int)) (d Str)) (! (=> (not (= (bsum n D2 A d) (- (bsum n D B d) (bsum n D C d)))) (let ((w (bsum_lin2 n D2 A D B C))) (and (<= 0 w) (< w n) (or (not (= (select D2 w) (select D w))) (not (= (select A w) (- (select B w) (select C w)))))))) :pattern ((bsum_lin2 n D2 A D B C) (bsum n D2 A d))))")
	D.Fun("bsum_le", []Sort{SInt, sArrIS, sArrII, sArrII, SStr}, SInt)
	D.Axiom("(forall ((n Int) (D (Array Int Str)) (A (Array Int Int)) (B (Array Int Int)) (d Str)) (! (=> (> (bsum n D A d) (bsum n D B d)) (let ((w (bsum_le n D A B d))) (and (<= 0 w) (< w n) (> (select A w) (select B w))))) :pattern ((bsum_le n D A B d))))")
	// explicit step instance (E-matching on (+ n 1) is fragile once the arithmetic is normalised)
	D.Fun("bsum_step", []Sort{SInt, sArrIS, sArrII, SStr}, SInt)
	D.Axiom("(forall ((n Int) (D (Array Int Str)) (A (Array Int Int)) (d Str)) (! (=> (>= n 0) (= (bsum (+ n 1) D A d) (+ (bsum n D A d) (ite (= (select D n) d) (select A n) 0)))) :pattern ((bsum_step n D A d))))")
	D.Fun("hint", []Sort{SInt}, SBool)
	D.Axiom("(forall ((x Int)) (! (hint x) :pattern ((hint x))))")
	// slarr(f, A)[j] = floor(f * A[j]): the per-entry slash amounts
	D.Fun("slarr", []Sort{SDec, sArrII}, sArrII)
	D.Axiom("(forall ((f Dec) (A (Array Int Int)) (j Int)) (! (= (select (slarr f A) j) (dtrunc (dmulint f (select A j)))) :pattern ((select (slarr f A) j))))")
	// per-account variant: entries whose delegator string is acc_str(a)
	D.Axiom("(forall ((D (Array Int Str)) (G (Array Int Str)) (A (Array Int Int)) (a Bytes) (d Str)) (! (= (bsumA 0 D G A a d) 0) :pattern ((bsumA 0 D G A a d))))")
	D.Axiom("(forall ((n Int) (D (Array Int Str)) (G (Array Int Str)) (A (Array Int Int)) (a Bytes) (d Str)) (! (=> (>= n 0) (= (bsumA (+ n 1) D G A a d) (+ (bsumA n D G A a d) (ite (and (= (select D n) d) (= (select G n) (acc_str a))) (select A n) 0)))) :pattern ((bsumA (+ n 1) D G A a d))))")
	D.Axiom("(forall ((n Int) (D (Array Int Str)) (G (Array Int Str)) (A (Array Int Int)) (a Bytes) (d Str)) (! (=> (>= n 0) (= (bsumA (+ 1 n) D G A a d) (+ (bsumA n D G A a d) (ite (and (= (select D n) d) (= (select G n) (acc_str a))) (select A n) 0)))) :pattern ((bsumA (+ 1 n) D G A a d))))")
	D.Fun("bsumA_diff", []Sort{SInt, sArrIS, sArrIS, sArrII, sArrIS, sArrIS, sArrII}, SInt)
	D.Axiom("(forall ((n Int) (D (Array Int Str)) (G (Array Int Str)) (A (Array Int Int)) (D2 (Array Int Str)) (G2 (Array Int Str)) (A2 (Array Int Int)) (a Bytes) (d Str)) (! (=> (not (= (bsumA n D G A a d) (bsumA n D2 G2 A2 a d))) (let ((w (bsumA_diff n D G A D2 G2 A2))) (and (<= 0 w) (< w n) (or (not (= (select D w) (select D2 w))) (not (= (select G w) (select G2 w))) (not (= (select A w) (select A2 w))))))) :pattern ((bsumA n D G A a d) (bsumA n D2 G2 A2 a d))))")
	// bucket-level sums over encoded bytes
	D.Fun("bs", []Sort{SBytes, SStr}, SInt)
	D.Fun("bsA", []Sort{SBytes, SBytes, SStr}, SInt)
}

// bucket leaf projections (QueuedUndelegation: #len, DelegatorAddress[], ValidatorAddress[], Balance.Denom[], Balance.Amount[])
func (E *Engine) bucketLeaves(m *Machine, b *Term) (n, deleg, val, den, amt *Term) {
	t := E.namedModuleType("QueuedUndelegation")
	_, unm, _ := E.declCodec(t)
	ls := leavesOf(t)
	get := func(suffix string) *Term {
		for i, l := range ls {
			if strings.HasSuffix(l.Path, suffix) {
				return App(l.Sort, unm[i], b)
			}
		}
		panic("bucket leaf " + suffix)
	}
	return get("#len"), get("DelegatorAddress"), get("ValidatorAddress"), get("Balance.Denom"), get("Balance.Amount")
}

func (E *Engine) declBucketSums(m *Machine) {
	E.declSums()
	if E.bsDone {
		return
	}
	E.bsDone = true
	models[pkgSdk+".AccAddressFromBech32"](m, nil, nil, []Val{E.D.StrLit("")})
	b := T(SBytes, "b")
	n, deleg, _, den, amt := E.bucketLeaves(m, b)
	E.D.Axiom("(forall ((d Str)) (! (= (bs bnil d) 0) :pattern ((bs bnil d))))")
	E.D.Axiom("(forall ((a Bytes) (d Str)) (! (= (bsA bnil a d) 0) :pattern ((bsA bnil a d))))")
	E.D.Axiom(fmt.Sprintf("(forall ((b Bytes) (d Str)) (! (=> (not (= b bnil)) (= (bs b d) (bsum %s %s %s d))) :pattern ((bs b d))))", n.S, den.S, amt.S))
	E.D.Axiom(fmt.Sprintf("(forall ((b Bytes) (a Bytes) (d Str)) (! (=> (not (= b bnil)) (= (bsA b a d) (bsumA %s %s %s %s a d))) :pattern ((bsA b a d))))", n.S, den.S, deleg.S, amt.S))
}

func (E *Engine) namedModuleType(name string) typesType {
	sp := E.P.SSA[modPath+"/x/alliance/types"]
	if sp == nil || sp.Type(name) == nil {
		panic(unsupported("type " + name + " not found"))
	}
	return sp.Type(name).Type()
}

// keyFamilyOf: syntactic family of a key term (0 = unknown).
func keyFamilyOf(k *Term) int {
	for _, kc := range keyFamilies {
		if kc.Tag != 0 && strings.HasPrefix(k.S, "("+kc.Cons+" ") {
			return kc.Tag
		}
	}
	switch k.S {
	case "g_ParamsKey":
		return tagParams
	case "g_AssetRebalanceQueueKey":
		return tagFlag
	}
	return 0
}

// ghostOnWrite is called on every write S[k] := v with the store before the write.
func (m *Machine) ghostOnWrite(old *Term, k, v *Term) {
	if !m.E.SumsOn {
		return
	}
	fam := keyFamilyOf(k)
	if fam != 0 && fam != 8 {
		return
	}
	E := m.E
	E.declBucketSums(m)
	ut := m.GetG("UT", ghostSorts["UT"])
	uta := m.GetG("UTA", ghostSorts["UTA"])
	nut := E.D.Fresh("UT", ghostSorts["UT"])
	nuta := E.D.Fresh("UTA", ghostSorts["UTA"])
	oldv := Select(old, k)
	guard := "true"
	if fam == 0 {
		guard = fmt.Sprintf("(= (ktag %s) 8)", k.S)
	}
	m.AssumeT(T(SBool, fmt.Sprintf("(forall ((d Str)) (! (= (select %s d) (ite %s (+ (- (select %s d) (bs %s d)) (bs %s d)) (select %s d))) :pattern ((select %s d))))",
		nut.S, guard, ut.S, oldv.S, v.S, ut.S, nut.S)))
	m.AssumeT(T(SBool, fmt.Sprintf("(forall ((a Bytes) (d Str)) (! (= (select (select %s a) d) (ite %s (+ (- (select (select %s a) d) (bsA %s a d)) (bsA %s a d)) (select (select %s a) d))) :pattern ((select (select %s a) d))))",
		nuta.S, guard, uta.S, oldv.S, v.S, uta.S, nuta.S)))
	m.SetG("UT", nut)
	m.SetG("UTA", nuta)
}

// ghostOnRead: member bound for a bucket that is read (requires non-negative entry amounts, part of WF).
func (m *Machine) ghostOnRead(k *Term) {
	if !m.E.SumsOn {
		return
	}
	fam := keyFamilyOf(k)
	if fam != 0 && fam != 8 {
		return
	}
	E := m.E
	E.declBucketSums(m)
	ut := m.GetG("UT", ghostSorts["UT"])
	uta := m.GetG("UTA", ghostSorts["UTA"])
	cell := Select(m.S(), k)
	guard := "true"
	if fam == 0 {
		guard = fmt.Sprintf("(= (ktag %s) 8)", k.S)
	}
	m.AssumeT(T(SBool, fmt.Sprintf("(forall ((d Str)) (! (=> %s (>= (select %s d) (bs %s d))) :pattern ((bs %s d))))", guard, ut.S, cell.S, cell.S)))
	m.AssumeT(T(SBool, fmt.Sprintf("(forall ((a Bytes) (d Str)) (! (=> %s (>= (select (select %s a) d) (bsA %s a d))) :pattern ((bsA %s a d))))", guard, uta.S, cell.S, cell.S)))
}

func init() {
	ghostFuns["UT"] = func(ev *Evaluator, a []*Term) Val {
		ev.E.declBucketSums(ev.M)
		return Select(ev.M.GetG("UT", ghostSorts["UT"]), a[0])
	}
	ghostFuns["UTA"] = func(ev *Evaluator, a []*Term) Val {
		ev.E.declBucketSums(ev.M)
		return Select(Select(ev.M.GetG("UTA", ghostSorts["UTA"]), a[0]), a[1])
	}
	ghostFuns["settled"] = func(ev *Evaluator, a []*Term) Val {
		return Select(ev.M.GetG("settled", ghostSorts["settled"]), a[0])
	}
	ghostFuns["vsettled"] = func(ev *Evaluator, a []*Term) Val {
		return Select(ev.M.GetG("vsettled", ghostSorts["vsettled"]), a[0])
	}
	for _, g := range []string{"minted", "burned"} {
		g := g
		ghostFuns[g] = func(ev *Evaluator, a []*Term) Val {
			return Select(Select(ev.M.GetG(g, ghostSorts[g]), a[0]), a[1])
		}
	}
	for _, g := range []string{"sdelegated", "sunbonded"} {
		g := g
		ghostFuns[g] = func(ev *Evaluator, a []*Term) Val {
			return Select(ev.M.GetG(g, ghostSorts[g]), a[0])
		}
	}
	ghostFuns["bs"] = func(ev *Evaluator, a []*Term) Val {
		ev.E.declBucketSums(ev.M)
		return App(SInt, "bs", a...)
	}
	ghostFuns["bsA"] = func(ev *Evaluator, a []*Term) Val {
		ev.E.declBucketSums(ev.M)
		return App(SInt, "bsA", a...)
	}
	ghostFuns["bsum"] = func(ev *Evaluator, a []*Term) Val {
		ev.E.declBucketSums(ev.M)
		return App(SInt, "bsum", a...)
	}
	// use_le / use_lin: name the witness term of a list-sum lemma so that the lemma instance is available
	ghostFuns["use_le"] = func(ev *Evaluator, a []*Term) Val {
		ev.E.declBucketSums(ev.M)
		return App(SBool, "hint", App(SInt, "bsum_le", a...))
	}
	ghostFuns["use_step"] = func(ev *Evaluator, a []*Term) Val {
		ev.E.declBucketSums(ev.M)
		return App(SBool, "hint", App(SInt, "bsum_step", a...))
	}
	ghostFuns["use_el"] = func(ev *Evaluator, a []*Term) Val {
		ev.E.declBucketSums(ev.M)
		return App(SBool, "hint", App(SInt, "bsum_el", a...))
	}
	ghostFuns["use_mono"] = func(ev *Evaluator, a []*Term) Val {
		ev.E.declBucketSums(ev.M)
		return App(SBool, "hint", App(SInt, "bsum_mono", a...))
	}
	ghostFuns["use_diff"] = func(ev *Evaluator, a []*Term) Val {
		ev.E.declBucketSums(ev.M)
		return App(SBool, "hint", App(SInt, "bsum_diff", a...))
	}
	ghostFuns["use_diffA"] = func(ev *Evaluator, a []*Term) Val {
		ev.E.declBucketSums(ev.M)
		return App(SBool, "hint", App(SInt, "bsumA_diff", a...))
	}
	ghostFuns["use_lin2"] = func(ev *Evaluator, a []*Term) Val {
		ev.E.declBucketSums(ev.M)
		return App(SBool, "hint", App(SInt, "bsum_lin2", a...))
	}
	ghostFuns["use_lin"] = func(ev *Evaluator, a []*Term) Val {
		ev.E.declBucketSums(ev.M)
		return App(SBool, "hint", App(SInt, "bsum_lin", a...))
	}
	ghostFuns["slarr"] = func(ev *Evaluator, a []*Term) Val {
		ev.E.declBucketSums(ev.M)
		return App(Sort(sArrII), "slarr", a...)
	}
	ghostFuns["bsumA"] = func(ev *Evaluator, a []*Term) Val {
		ev.E.declBucketSums(ev.M)
		return App(SInt, "bsumA", a...)
	}
}
