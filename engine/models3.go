package main

import (
	"fmt"
	"go/types"

	"golang.org/x/tools/go/ssa"
)

// ---------------- x/staking and x/distribution (A-STAKING, A-DISTR) ----------------
//
// Ghost staking state is a version token `stk` (Int); reads are uninterpreted functions of (stk, key).
// Mutations produce a fresh version related to the old one by the assumed contract of the call.

const aStakingText = "x/staking: validator status/tokens/shares and delegations are read from ghost staking state; Delegate/Unbond move tokens as specified in DESIGN.md 5.1; BondStatus Bonded = 3"

func (m *Machine) stk() *Term { return m.GetG("stk", SInt) }

func (E *Engine) declStaking() {
	E.Assume("A-STAKING", aStakingText)
	D := E.D
	D.Fun("stk_exists", []Sort{SInt, SBytes}, SBool)
	D.Fun("stk_status", []Sort{SInt, SBytes}, SInt)
	D.Fun("stk_tokens", []Sort{SInt, SBytes}, SInt)
	D.Fun("stk_dshares", []Sort{SInt, SBytes}, SDec)
	D.Fun("stk_jailed", []Sort{SInt, SBytes}, SBool)
	D.Fun("stk_hasdel", []Sort{SInt, SBytes, SBytes}, SBool)
	D.Fun("stk_delshares", []Sort{SInt, SBytes, SBytes}, SDec)
	D.Fun("stk_total_bonded", []Sort{SInt}, SInt)
	D.Const("stk_unbonding_time", SInt)
	D.Const("bondDenom", SStr)
	D.Axiom("(> stk_unbonding_time 0)")
	D.Axiom("(forall ((s Int) (v Bytes)) (! (and (>= (stk_tokens s v) 0) (>= (stk_dshares s v) 0)) :pattern ((stk_tokens s v))))")
	D.Axiom("(forall ((s Int) (a Bytes) (v Bytes)) (! (>= (stk_delshares s a v) 0) :pattern ((stk_delshares s a v))))")
	D.Axiom("(forall ((s Int)) (! (>= (stk_total_bonded s) 0) :pattern ((stk_total_bonded s))))")
}

func setField(sv *StructV, name string, v Val) {
	st := sv.Typ.Underlying().(*types.Struct)
	for i := 0; i < st.NumFields(); i++ {
		if st.Field(i).Name() == name {
			sv.F[i] = v
			return
		}
	}
	panic(unsupported("no field " + name))
}

func init() {
	invokeModels[ifStake+".GetValidator"] = func(m *Machine, _ *Frame, cc *ssa.CallCommon, a []Val) Val {
		m.E.declStaking()
		models[pkgSdk+".AccAddressFromBech32"](m, nil, nil, []Val{m.E.D.StrLit("")}) // declare bech32 functions
		addr := term(a[2])
		rt := cc.Signature().Results().At(0).Type()
		v := m.symbolicValue(rt, "stkval").(*StructV)
		s := m.stk()
		setField(v, "OperatorAddress", App(SStr, "val_str", addr))
		setField(v, "Status", App(SInt, "stk_status", s, addr))
		setField(v, "Tokens", App(SInt, "stk_tokens", s, addr))
		setField(v, "DelegatorShares", App(SDec, "stk_dshares", s, addr))
		setField(v, "Jailed", App(SBool, "stk_jailed", s, addr))
		return &TupleV{Vs: []Val{v, Ite(App(SBool, "stk_exists", s, addr), IntLit(0), IntLit(997))}}
	}
	invokeModels[ifStake+".GetDelegation"] = func(m *Machine, _ *Frame, cc *ssa.CallCommon, a []Val) Val {
		m.E.declStaking()
		models[pkgSdk+".AccAddressFromBech32"](m, nil, nil, []Val{m.E.D.StrLit("")})
		del, val := term(a[2]), term(a[3])
		rt := cc.Signature().Results().At(0).Type()
		d := m.symbolicValue(rt, "stkdel").(*StructV)
		s := m.stk()
		setField(d, "DelegatorAddress", App(SStr, "acc_str", del))
		setField(d, "ValidatorAddress", App(SStr, "val_str", val))
		setField(d, "Shares", App(SDec, "stk_delshares", s, del, val))
		return &TupleV{Vs: []Val{d, Ite(App(SBool, "stk_hasdel", s, del, val), IntLit(0), IntLit(996))}}
	}
	invokeModels[ifStake+".UnbondingTime"] = func(m *Machine, _ *Frame, _ *ssa.CallCommon, a []Val) Val {
		m.E.declStaking()
		return &TupleV{Vs: []Val{T(SInt, "stk_unbonding_time"), IntLit(0)}}
	}
	invokeModels[ifStake+".BondDenom"] = func(m *Machine, _ *Frame, _ *ssa.CallCommon, a []Val) Val {
		m.E.declStaking()
		return &TupleV{Vs: []Val{T(SStr, "bondDenom"), IntLit(0)}}
	}
	invokeModels[ifStake+".TotalBondedTokens"] = func(m *Machine, _ *Frame, _ *ssa.CallCommon, a []Val) Val {
		m.E.declStaking()
		return &TupleV{Vs: []Val{App(SInt, "stk_total_bonded", m.stk()), IntLit(0)}}
	}
	// distribution
	invokeModels[ifDistr+".WithdrawDelegationRewards"] = func(m *Machine, _ *Frame, _ *ssa.CallCommon, a []Val) Val {
		E := m.E
		E.declStaking()
		E.Assume("A-DISTR", "x/distribution: WithdrawDelegationRewards(module,val) returns the pending rewards pend(val) as a valid coin list, sets them to zero and credits the delegator (module) account; no error when the delegation exists")
		del, val := term(a[2]), term(a[3])
		pendSort := ArrSort(SBytes, ArrSort(SStr, SInt))
		pend := m.GetG("pend", pendSort)
		coins := &CoinsV{Dec: false, M: Select(pend, val)}
		E.declCoinFuns(false)
		m.AssumeT(T(SBool, fmt.Sprintf("(forall ((d Str)) (! (>= (select %s d) 0) :pattern ((select %s d))))", coins.M.S, coins.M.S)))
		ok := App(SBool, "stk_hasdel", m.stk(), del, val)
		zero := E.emptyCoins(false)
		bank := m.Bank()
		m.Z3Ext = true
		nb := Store(bank, del, T(ArrSort(SStr, SInt), fmt.Sprintf("((_ map (+ (Int Int) Int)) %s %s)", Select(bank, del).S, coins.M.S)))
		m.SetG("bank", Ite(ok, nb, bank))
		m.SetG("pend", Ite(ok, Store(pend, val, zero.M), pend))
		return &TupleV{Vs: []Val{coins, Ite(ok, IntLit(0), IntLit(995))}}
	}
}
