package main

import (
	"strings"
	"fmt"
	"go/types"

	"golang.org/x/tools/go/ssa"
)

// ---------------- x/staking and x/distribution (A-STAKING, A-DISTR) ----------------
//
// Ghost staking state is a version token `stk` (Int); reads are uninterpreted functions of (stk, key).
// Mutations produce a fresh version related to the old one by the assumed contract of the call.

const aStakingText = "x/staking: validator status/tokens/shares and delegations are read from ghost staking state; Delegate/Unbond move tokens as specified in DESIGN.md 5.1; BondStatus Bonded = 3"

func (m *Machine) stk() *Term { return m.GetG("stk", SInt) }

func (E *Engine) declStaking() {
	E.Assume("A-STAKING", aStakingText)
	D := E.D
	D.Fun("stk_exists", []Sort{SInt, SBytes}, SBool)
	D.Fun("stk_status", []Sort{SInt, SBytes}, SInt)
	D.Fun("stk_tokens", []Sort{SInt, SBytes}, SInt)
	D.Fun("stk_dshares", []Sort{SInt, SBytes}, SDec)
	D.Fun("stk_jailed", []Sort{SInt, SBytes}, SBool)
	D.Fun("stk_hasdel", []Sort{SInt, SBytes, SBytes}, SBool)
	D.Fun("stk_delshares", []Sort{SInt, SBytes, SBytes}, SDec)
	D.Fun("stk_total_bonded", []Sort{SInt}, SInt)
	D.Fun("stk_bonded_of", []Sort{SInt, SBytes}, SInt) // sum over BONDED validators of the truncated token value of a delegator's shares
	D.Const("stk_unbonding_time", SInt)
	D.Const("bondDenom", SStr)
	D.Axiom("(> stk_unbonding_time 0)")
	D.Axiom("(forall ((s Int) (v Bytes)) (! (and (>= (stk_tokens s v) 0) (>= (stk_dshares s v) 0)) :pattern ((stk_tokens s v))))")
	D.Axiom("(forall ((s Int) (a Bytes) (v Bytes)) (! (>= (stk_delshares s a v) 0) :pattern ((stk_delshares s a v))))")
	D.Axiom("(forall ((s Int)) (! (>= (stk_total_bonded s) 0) :pattern ((stk_total_bonded s))))")
	D.Axiom("(forall ((s Int) (a Bytes)) (! (and (>= (stk_bonded_of s a) 0) (<= (stk_bonded_of s a) (stk_total_bonded s))) :pattern ((stk_bonded_of s a))))")
}

func setField(sv *StructV, name string, v Val) {
	st := sv.Typ.Underlying().(*types.Struct)
	for i := 0; i < st.NumFields(); i++ {
		if st.Field(i).Name() == name {
			sv.F[i] = v
			return
		}
	}
	panic(unsupported("no field " + name))
}

func init() {
	invokeModels[ifStake+".GetValidator"] = func(m *Machine, _ *Frame, cc *ssa.CallCommon, a []Val) Val {
		m.E.declStaking()
		models[pkgSdk+".AccAddressFromBech32"](m, nil, nil, []Val{m.E.D.StrLit("")}) // declare bech32 functions
		addr := term(a[2])
		rt := cc.Signature().Results().At(0).Type()
		v := m.symbolicValue(rt, "stkval").(*StructV)
		s := m.stk()
		setField(v, "OperatorAddress", App(SStr, "val_str", addr))
		setField(v, "Status", App(SInt, "stk_status", s, addr))
		setField(v, "Tokens", App(SInt, "stk_tokens", s, addr))
		setField(v, "DelegatorShares", App(SDec, "stk_dshares", s, addr))
		setField(v, "Jailed", App(SBool, "stk_jailed", s, addr))
		return &TupleV{Vs: []Val{v, Ite(App(SBool, "stk_exists", s, addr), IntLit(0), IntLit(997))}}
	}
	invokeModels[ifStake+".GetDelegation"] = func(m *Machine, _ *Frame, cc *ssa.CallCommon, a []Val) Val {
		m.E.declStaking()
		models[pkgSdk+".AccAddressFromBech32"](m, nil, nil, []Val{m.E.D.StrLit("")})
		del, val := term(a[2]), term(a[3])
		rt := cc.Signature().Results().At(0).Type()
		d := m.symbolicValue(rt, "stkdel").(*StructV)
		s := m.stk()
		setField(d, "DelegatorAddress", App(SStr, "acc_str", del))
		setField(d, "ValidatorAddress", App(SStr, "val_str", val))
		setField(d, "Shares", App(SDec, "stk_delshares", s, del, val))
		return &TupleV{Vs: []Val{d, Ite(App(SBool, "stk_hasdel", s, del, val), IntLit(0), IntLit(996))}}
	}
	invokeModels[ifStake+".UnbondingTime"] = func(m *Machine, _ *Frame, _ *ssa.CallCommon, a []Val) Val {
		m.E.declStaking()
		return &TupleV{Vs: []Val{T(SInt, "stk_unbonding_time"), IntLit(0)}}
	}
	invokeModels[ifStake+".BondDenom"] = func(m *Machine, _ *Frame, _ *ssa.CallCommon, a []Val) Val {
		m.E.declStaking()
		return &TupleV{Vs: []Val{T(SStr, "bondDenom"), IntLit(0)}}
	}
	invokeModels[ifStake+".TotalBondedTokens"] = func(m *Machine, _ *Frame, _ *ssa.CallCommon, a []Val) Val {
		m.E.declStaking()
		return &TupleV{Vs: []Val{App(SInt, "stk_total_bonded", m.stk()), IntLit(0)}}
	}
	// ---- fold of a callback over a delegator's delegations ----
	// IterateDelegatorDelegations(ctx, del, cb): the callback is checked as the INDUCTIVE STEP of the fold that defines
	// stk_bonded_dec: before the n-th call the (single) decimal accumulator captured by cb holds psum(n); after it, it must hold
	// psum(n+1) = psum(n) + ite(validator exists and is BONDED, truncated token value of the shares, 0), and cb must not stop the
	// iteration. After the fold the accumulator holds stk_bonded_dec(stk, del) and stk_bonded_of = TruncateInt of it.
	invokeModels[ifStake+".IterateDelegatorDelegations"] = func(m *Machine, f *Frame, cc *ssa.CallCommon, a []Val) Val {
		E := m.E
		E.declStaking()
		models[pkgSdk+".AccAddressFromBech32"](m, nil, nil, []Val{E.D.StrLit("")})
		E.Assume("A-STAKING-FOLD", "x/staking IterateDelegatorDelegations(del, cb) calls cb once per delegation of del (existing, with the stored shares and the bech32 validator address) until cb returns true; the alliance-bonded amount stk_bonded_of(stk, del) is DEFINED as TruncateInt of the fold over those delegations of: validator exists and status == Bonded ? TokensFromSharesTruncated(shares) : 0. The callback is verified as the inductive step of that fold")
		del := term(a[2])
		cb, ok := a[3].(*ClosureV)
		if !ok {
			panic(unsupported("IterateDelegatorDelegations with a non-closure callback"))
		}
		var acc *PtrV
		for _, b := range cb.Bind {
			if p, isP := b.(*PtrV); isP {
				if typeKey(p.Elem) == tDec {
					if acc != nil {
						panic(unsupported("fold callback with more than one decimal accumulator"))
					}
					acc = p
				}
			}
		}
		if acc == nil {
			panic(unsupported("fold callback without a decimal accumulator"))
		}
		x := f.Block.Instrs[f.Idx-1]
		site := m.siteName(f, "IterateDelegatorDelegations")
		props := []string{}
		if m.Top != nil && m.Top.C != nil {
			props = allProps(m.Top.C)
		}
		s := m.stk()
		D := E.D
		D.Fun("stk_psum", []Sort{SInt, SBytes, SInt}, SDec)
		D.Fun("stk_nth", []Sort{SInt, SBytes, SInt}, SBytes)
		D.Fun("stk_ndels", []Sort{SInt, SBytes}, SInt)
		D.Fun("stk_bonded_dec", []Sort{SInt, SBytes}, SDec)
		D.Fun("dquotrunc", []Sort{SDec, SDec}, SDec)
		D.Axiom("(forall ((s Int) (a Bytes)) (! (and (>= (stk_ndels s a) 0) (= (stk_psum s a 0) 0) (= (stk_bonded_dec s a) (stk_psum s a (stk_ndels s a))) (= (stk_bonded_of s a) (dtrunc (stk_bonded_dec s a)))) :pattern ((stk_bonded_dec s a))))")
		// init: the accumulator starts at the empty sum
		E.addObl(m, &Obligation{Name: fmt.Sprintf("%s:fold-init@%s", m.Top.Name, site), Func: m.Top.Name, Kind: "fold", Props: props, Reading: ReadU,
			Goal: Eq(term(m.Load(acc)), DecInt(0)), Src: "the accumulator of the fold starts at 0"})
		n := D.Fresh("foldn", SInt)
		m.AssumeT(And(Ge(n, IntLit(0)), Lt(n, App(SInt, "stk_ndels", s, del))))
		v := App(SBytes, "stk_nth", s, del, n)
		m.AssumeT(App(SBool, "stk_hasdel", s, del, v))
		psn := App(SDec, "stk_psum", s, del, n)
		m.StoreTo(acc, psn)
		rt := cb.Fn.Params[0].Type()
		d := m.symbolicValue(rt, "folddel").(*StructV)
		setField(d, "DelegatorAddress", App(SStr, "acc_str", del))
		setField(d, "ValidatorAddress", App(SStr, "val_str", v))
		setField(d, "Shares", App(SDec, "stk_delshares", s, del, v))
		step := Ite(And(App(SBool, "stk_exists", s, v), Eq(App(SInt, "stk_status", s, v), IntLit(3))),
			decOp("dquotrunc", decOp("dmulint", App(SDec, "stk_delshares", s, del, v), App(SInt, "stk_tokens", s, v)), App(SDec, "stk_dshares", s, v)), DecInt(0))
		name := m.Top.Name
		nf := &Frame{Fn: cb.Fn, Env: map[ssa.Value]Val{}, Block: cb.Fn.Blocks[0], Call: x, Bind: cb.Bind, Loops: map[int]*LoopCtx{}}
		nf.Env[cb.Fn.Params[0]] = d
		nf.Key = FuncName(cb.Fn)
		nf.OnRet = func(m2 *Machine, res []Val) Val {
			E.addObl(m2, &Obligation{Name: fmt.Sprintf("%s:fold-step@%s", name, site), Func: name, Kind: "fold", Props: props, Reading: ReadU,
				Goal: Eq(term(m2.Load(acc)), Add(psn, step)), Src: "one callback adds exactly: validator exists and is bonded ? truncated token value of the shares : 0"})
			if len(res) == 1 {
				E.addObl(m2, &Obligation{Name: fmt.Sprintf("%s:fold-continues@%s", name, site), Func: name, Kind: "fold", Props: props, Reading: ReadU,
					Goal: Not(term(res[0])), Src: "the callback never stops the iteration early"})
			}
			m2.StoreTo(acc, App(SDec, "stk_bonded_dec", s, del))
			return IntLit(0)
		}
		m.Frames = append(m.Frames, nf)
		return IntLit(0)
	}
	// ---- mutators (used by the rebalance only) ----
	// stkStep makes a new staking version in which only validator `val` and the delegation (del,val) may differ.
	stkStep := func(m *Machine, del, val *Term) (*Term, *Term) {
		E := m.E
		E.declStaking()
		E.declKeys()
		E.Assume("A-STAKING-MUT", "x/staking Delegate/Unbond(del,val): change only validator val's tokens/shares and the delegation (del,val); existence, status and jailing of every validator are kept; the module's staking hooks run and queue a rebalance (AfterDelegationModified / BeforeDelegationRemoved set the alliance flag); error conditions are not modelled (any error may be returned)")
		s0 := m.stk()
		if strings.HasPrefix(s0.S, "(") {
			// name a compound version term (ite ...) so that it never occurs inside a quantifier pattern
			nm := E.D.Fresh("stkcur", SInt)
			m.AssumeT(Eq(nm, s0))
			m.SetG("stk", nm)
			s0 = nm
		}
		s1 := E.D.Fresh("stk", SInt)
		ax := fmt.Sprintf("(forall ((v Bytes)) (! (and (= (stk_exists %[1]s v) (stk_exists %[2]s v)) (= (stk_status %[1]s v) (stk_status %[2]s v)) (= (stk_jailed %[1]s v) (stk_jailed %[2]s v)) (=> (not (= v %[3]s)) (and (= (stk_tokens %[1]s v) (stk_tokens %[2]s v)) (= (stk_dshares %[1]s v) (stk_dshares %[2]s v))))) :pattern ((stk_exists %[1]s v)) :pattern ((stk_status %[1]s v)) :pattern ((stk_tokens %[1]s v)) :pattern ((stk_dshares %[1]s v)) :pattern ((stk_jailed %[1]s v))))", s1.S, s0.S, val.S)
		m.AssumeT(T(SBool, ax))
		ax2 := fmt.Sprintf("(forall ((a Bytes) (v Bytes)) (! (=> (not (and (= a %[3]s) (= v %[4]s))) (and (= (stk_hasdel %[1]s a v) (stk_hasdel %[2]s a v)) (= (stk_delshares %[1]s a v) (stk_delshares %[2]s a v)))) :pattern ((stk_hasdel %[1]s a v)) :pattern ((stk_delshares %[1]s a v))))", s1.S, s0.S, del.S, val.S)
		m.AssumeT(T(SBool, ax2))
		ax3 := fmt.Sprintf("(forall ((a Bytes)) (! (=> (not (= a %[3]s)) (= (stk_bonded_of %[1]s a) (stk_bonded_of %[2]s a))) :pattern ((stk_bonded_of %[1]s a))))", s1.S, s0.S, del.S)
		m.AssumeT(T(SBool, ax3))
		return s0, s1
	}
	// x/distribution's staking hook BeforeDelegationSharesModified: the delegator's pending rewards on the validator are withdrawn to the
	// delegator's account before the shares change (only when the delegation exists)
	distrHook := func(m *Machine, del, val, ok *Term) {
		E := m.E
		E.Assume("A-DISTR-HOOK", "x/staking Delegate/Unbond on an existing delegation first withdraws the delegator's pending x/distribution rewards on that validator to the delegator's account (distribution hook BeforeDelegationSharesModified)")
		pendSort := ArrSort(SBytes, ArrSort(SStr, SInt))
		pend := m.GetG("pend", pendSort)
		has := App(SBool, "stk_hasdel", m.stk(), del, val)
		bank := m.Bank()
		m.Z3Ext = true
		row := T(ArrSort(SStr, SInt), fmt.Sprintf("((_ map (+ (Int Int) Int)) %s %s)", Select(bank, del).S, Select(pend, val).S))
		cond := And(ok, has)
		m.SetG("bank", Ite(cond, Store(bank, del, row), bank))
		m.SetG("pend", Ite(cond, Store(pend, val, E.emptyCoins(false).M), pend))
	}
	hookFlag := func(m *Machine) {
		// the module's own staking hooks queue a rebalance
		m.SetG("S", Store(m.S(), T(SBytes, "g_AssetRebalanceQueueKey"), T(SBytes, "flagbytes")))
	}
	invokeModels[ifStake+".Delegate"] = func(m *Machine, _ *Frame, cc *ssa.CallCommon, a []Val) Val {
		E := m.E
		del, amt := term(a[2]), term(a[3])
		valS := a[5].(*StructV)
		models[pkgSdk+".AccAddressFromBech32"](m, nil, nil, []Val{E.D.StrLit("")})
		val := App(SBytes, "val_of", term(stakingField(valS, "OperatorAddress")))
		s0, s1 := stkStep(m, del, val)
		E.D.Declare("flagbytes", "(declare-fun flagbytes () Bytes)")
		E.D.Axiom("(not (= flagbytes bnil))")
		sub := term(a[6])
		bond := T(SStr, "bondDenom")
		bank := m.Bank()
		funded := Ge(m.bankSelect(del, bond), amt)
		pool := Ite(Eq(App(SInt, "stk_status", s0, val), IntLit(3)), E.moduleAddr(E.D.StrLit("bonded_tokens_pool")), E.moduleAddr(E.D.StrLit("not_bonded_tokens_pool")))
		fromBal := Store(Select(bank, del), bond, Sub(m.bankSelect(del, bond), amt))
		b1 := Store(bank, del, fromBal)
		toBal := Store(Select(b1, pool), bond, Add(Select(Select(b1, pool), bond), amt))
		b2 := Store(b1, pool, toBal)
		okv := E.D.Fresh("delegate_ok", SBool)
		ok := And(okv, Or(Not(sub), funded), Gt(amt, IntLit(0)))
		distrHook(m, del, val, ok)
		bank = m.Bank()
		fromBal = Store(Select(bank, del), bond, Sub(m.bankSelect(del, bond), amt))
		b1 = Store(bank, del, fromBal)
		toBal = Store(Select(b1, pool), bond, Add(Select(Select(b1, pool), bond), amt))
		b2 = Store(b1, pool, toBal)
		// success: tokens move, shares are issued
		m.AssumeT(Implies(ok, And(
			Eq(App(SInt, "stk_tokens", s1, val), Add(App(SInt, "stk_tokens", s0, val), amt)),
			App(SBool, "stk_hasdel", s1, del, val),
			Ge(App(SDec, "stk_delshares", s1, del, val), App(SDec, "stk_delshares", s0, del, val)),
			Eq(App(SInt, "stk_total_bonded", s1), Add(App(SInt, "stk_total_bonded", s0), Ite(Eq(App(SInt, "stk_status", s0, val), IntLit(3)), amt, IntLit(0)))))))
		m.SetG("stk", Ite(ok, s1, s0))
		m.SetG("bank", Ite(And(ok, sub), b2, bank))
		led := m.GetG("sdelegated", ghostSorts["sdelegated"])
		m.SetG("sdelegated", Ite(ok, Store(led, del, Add(Select(led, del), amt)), led))
		if true {
			sBefore := m.S()
			hookFlag(m)
			m.SetG("S", Ite(ok, m.S(), sBefore))
		}
		shares := E.D.Fresh("newshares", SDec)
		return &TupleV{Vs: []Val{shares, Ite(ok, IntLit(0), IntLit(994))}}
	}
	invokeModels[ifStake+".ValidateUnbondAmount"] = func(m *Machine, _ *Frame, cc *ssa.CallCommon, a []Val) Val {
		E := m.E
		E.declStaking()
		E.Assume("A-STAKING-MUT", "x/staking Delegate/Unbond(del,val): change only validator val's tokens/shares and the delegation (del,val); existence, status and jailing of every validator are kept; the module's staking hooks run and queue a rebalance (AfterDelegationModified / BeforeDelegationRemoved set the alliance flag); error conditions are not modelled (any error may be returned)")
		shares := E.D.Fresh("unbshares", SDec)
		m.AssumeT(Ge(shares, DecInt(0)))
		err := E.D.Fresh("err_validateunbond", SInt)
		m.AssumeT(Ge(err, IntLit(0)))
		return &TupleV{Vs: []Val{shares, err}}
	}
	invokeModels[ifStake+".Unbond"] = func(m *Machine, _ *Frame, cc *ssa.CallCommon, a []Val) Val {
		E := m.E
		del, val := term(a[2]), term(a[3])
		s0, s1 := stkStep(m, del, val)
		E.D.Declare("flagbytes", "(declare-fun flagbytes () Bytes)")
		E.D.Axiom("(not (= flagbytes bnil))")
		amount := E.D.Fresh("unbonded", SInt)
		m.AssumeT(Ge(amount, IntLit(0)))
		ok := E.D.Fresh("unbond_ok", SBool)
		distrHook(m, del, val, ok)
		m.AssumeT(Implies(ok, And(
			Eq(App(SInt, "stk_tokens", s1, val), Sub(App(SInt, "stk_tokens", s0, val), amount)),
			Le(App(SDec, "stk_delshares", s1, del, val), App(SDec, "stk_delshares", s0, del, val)),
			Eq(App(SInt, "stk_total_bonded", s1), Sub(App(SInt, "stk_total_bonded", s0), Ite(Eq(App(SInt, "stk_status", s0, val), IntLit(3)), amount, IntLit(0)))))))
		m.SetG("stk", Ite(ok, s1, s0))
		led := m.GetG("sunbonded", ghostSorts["sunbonded"])
		m.SetG("sunbonded", Ite(ok, Store(led, del, Add(Select(led, del), amount)), led))
		sBefore := m.S()
		hookFlag(m)
		m.SetG("S", Ite(ok, m.S(), sBefore))
		return &TupleV{Vs: []Val{amount, Ite(ok, IntLit(0), IntLit(993))}}
	}
	// distribution
	invokeModels[ifDistr+".WithdrawDelegationRewards"] = func(m *Machine, _ *Frame, _ *ssa.CallCommon, a []Val) Val {
		E := m.E
		E.declStaking()
		E.Assume("A-DISTR", "x/distribution: WithdrawDelegationRewards(module,val) returns the pending rewards pend(val) as a valid coin list, sets them to zero and credits the delegator (module) account; no error when the delegation exists")
		del, val := term(a[2]), term(a[3])
		pendSort := ArrSort(SBytes, ArrSort(SStr, SInt))
		pend := m.GetG("pend", pendSort)
		coins := &CoinsV{Dec: false, M: Select(pend, val)}
		E.declCoinFuns(false)
		m.AssumeT(T(SBool, fmt.Sprintf("(forall ((d Str)) (! (>= (select %s d) 0) :pattern ((select %s d))))", coins.M.S, coins.M.S)))
		ok := App(SBool, "stk_hasdel", m.stk(), del, val)
		zero := E.emptyCoins(false)
		bank := m.Bank()
		m.Z3Ext = true
		nb := Store(bank, del, T(ArrSort(SStr, SInt), fmt.Sprintf("((_ map (+ (Int Int) Int)) %s %s)", Select(bank, del).S, coins.M.S)))
		m.SetG("bank", Ite(ok, nb, bank))
		m.SetG("pend", Ite(ok, Store(pend, val, zero.M), pend))
		return &TupleV{Vs: []Val{coins, Ite(ok, IntLit(0), IntLit(995))}}
	}
}

// ---------------- custom/bank/keeper (C11: supply queries) ----------------

func init() {
	bk := "github.com/cosmos/cosmos-sdk/x/bank/keeper"
	getSupply := func(m *Machine, _ *Frame, _ *ssa.CallCommon, a []Val) Val {
		m.E.Assume("A-BANK", "x/bank: SendCoins* is all-or-nothing, moves exactly the listed amounts, fails iff the coins are invalid (a listed coin with amount <= 0), the sender's spendable balance is short, or (ModuleToAccount) the recipient is a blocked address; Mint/Burn change balance and supply by the amount; GetBalance reads the balance")
		d := term(a[2])
		return m.E.mkCoin(false, d, Select(m.Supply(), d))
	}
	models["("+bk+".BaseKeeper).GetSupply"] = getSupply
	models["("+bk+".BaseViewKeeper).GetSupply"] = getSupply
	models["("+bk+".BaseSendKeeper).GetSupply"] = getSupply
	models["github.com/cosmos/cosmos-sdk/x/auth/types.NewModuleAddress"] = func(m *Machine, _ *Frame, _ *ssa.CallCommon, a []Val) Val {
		return m.E.moduleAddr(term(a[0]))
	}
	models["(github.com/cosmos/cosmos-sdk/x/auth/keeper.AccountKeeper).GetModuleAddress"] = func(m *Machine, _ *Frame, _ *ssa.CallCommon, a []Val) Val {
		return m.E.moduleAddr(term(a[1]))
	}
	invokeModels["github.com/terra-money/alliance/custom/bank/types.StakingKeeper.BondDenom"] = func(m *Machine, _ *Frame, _ *ssa.CallCommon, a []Val) Val {
		m.E.declStaking()
		return &TupleV{Vs: []Val{T(SStr, "bondDenom"), IntLit(0)}}
	}
}

func init() {
	bk := "github.com/cosmos/cosmos-sdk/x/bank/keeper"
	page := func(m *Machine, _ *Frame, cc *ssa.CallCommon, a []Val) Val {
		E := m.E
		E.Assume("A-BANK-PAGE", "x/bank GetPaginatedTotalSupply returns one page of the supply: a valid coin list in which every listed denom carries its full supply (bank_page(supply) is an unknown but fixed selection)")
		E.D.Fun("bank_page", []Sort{ArrSort(SStr, SInt)}, ArrSort(SStr, SInt))
		sup := m.Supply()
		pg := App(ArrSort(SStr, SInt), "bank_page", sup)
		m.AssumeT(T(SBool, fmt.Sprintf("(forall ((d Str)) (! (or (= (select %s d) 0) (= (select %s d) (select %s d))) :pattern ((select %s d))))", pg.S, pg.S, sup.S, pg.S)))
		m.AssumeT(T(SBool, fmt.Sprintf("(forall ((d Str)) (! (>= (select %s d) 0) :pattern ((select %s d))))", sup.S, sup.S)))
		E.declCoinFuns(false)
		coins := &CoinsV{Dec: false, M: pg}
		rts := cc.Signature().Results()
		pr := m.symbolicValue(rts.At(1).Type(), "pageres")
		err := E.D.Fresh("err_page", SInt)
		m.AssumeT(Ge(err, IntLit(0)))
		return &TupleV{Vs: []Val{coins, pr, err}}
	}
	models["("+bk+".BaseKeeper).GetPaginatedTotalSupply"] = page
	models["("+bk+".BaseViewKeeper).GetPaginatedTotalSupply"] = page
	ghostFuns["pagesupply"] = func(ev *Evaluator, a []*Term) Val {
		ev.E.D.Fun("bank_page", []Sort{ArrSort(SStr, SInt)}, ArrSort(SStr, SInt))
		return Select(App(ArrSort(SStr, SInt), "bank_page", ev.M.Supply()), a[0])
	}
}

func init() {
	// err.Error(): the message text is not modelled (dropped by the extraction: error message text)
	invokeModels["error.Error"] = func(m *Machine, _ *Frame, _ *ssa.CallCommon, a []Val) Val {
		return m.E.D.Fresh("errmsg", SStr)
	}
}

func init() {
	// logging is dropped by the extraction: every Logger method is a no-op (With/Impl return the logger)
	for _, meth := range []string{"Info", "Debug", "Error", "Warn"} {
		invokeModels["cosmossdk.io/log.Logger."+meth] = func(m *Machine, _ *Frame, _ *ssa.CallCommon, a []Val) Val { return &TupleV{} }
		invokeModels["logger."+meth] = func(m *Machine, _ *Frame, _ *ssa.CallCommon, a []Val) Val { return &TupleV{} }
	}
	for _, meth := range []string{"With", "Impl"} {
		invokeModels["cosmossdk.io/log.Logger."+meth] = func(m *Machine, _ *Frame, _ *ssa.CallCommon, a []Val) Val { return a[0] }
		invokeModels["logger."+meth] = func(m *Machine, _ *Frame, _ *ssa.CallCommon, a []Val) Val { return a[0] }
	}
}
