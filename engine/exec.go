package main

import (
	"fmt"
	"math/big"
	"go/constant"
	"go/token"
	"go/types"
	"sort"
	"strings"

	"golang.org/x/tools/go/ssa"
)

// ---------------- engine / machine ----------------

type Obligation struct {
	Name    string // <func>:<kind>:<label>
	Func    string
	Kind    string // post | inv-init | inv-pres | safe | pre | cover
	Props   []string
	Reading Reading
	Hyps    []*Term
	Goal    *Term
	Path    string
	Src     string
	Z3Ext   bool
}

type Engine struct {
	SumsOn   bool
	sentinels map[string]bool
	bsDone   bool
	EntryPC  map[string][]*Term
	knownSet map[string]bool
	probing int
	Trivial map[string]*Clause
	cellTyp map[int]types.Type
	P       *Program
	D       *Decls
	Specs   *SpecDB
	Obls    []*Obligation
	Used    map[string]string // assumption id -> description
	ncell   int
	nerr    int64
	Limits  Limits
	Unsupp  []string // reasons why some function could not be translated
	curTop  string
	npaths  int
	Debug   bool
	PathLog []string
}

type Limits struct {
	MaxPaths  int
	MaxSteps  int
	MaxInline int
}

func NewEngine(P *Program, specs *SpecDB) *Engine {
	return &Engine{P: P, D: NewDecls(), Specs: specs, Used: map[string]string{}, Limits: Limits{MaxPaths: 1500, MaxSteps: 40000, MaxInline: 8}}
}

func (E *Engine) Assume(id, text string) { E.Used[id] = text }

type ArrV struct{ Elems []Val }

type LoopCtx struct {
	Head    *ssa.BasicBlock
	Spec    *LoopSpec
	Entered bool
	Unrolls int
	EntryG  map[string]*Term // state at loop entry (for old-at-entry references)
	Lets    map[string]Val
	HeadEnv map[string]Val // names -> values at the head after havoc
	EntryHeap map[int]Val
	Havocked  *WriteLog
	HeadHeapSnap map[int]Val
	HeadGSnap    map[string]*Term
	MaxCell      int // highest cell id allocated before the loop head was (re)entered symbolically
}

type Frame struct {
	Fn     *ssa.Function
	Env    map[ssa.Value]Val
	Block  *ssa.BasicBlock
	Prev   *ssa.BasicBlock
	Idx    int
	Call   ssa.Instruction // the caller's call instruction (nil for top)
	Bind   []Val           // free variables (closures)
	Loops  map[int]*LoopCtx
	Defers []func(m *Machine)
	Key    string // inlining context key for loop specs ("" for top, "callee" for inlined helpers)
	OnRet  func(m *Machine, res []Val) Val // callback frames pushed by a dependency model: maps the callback's results to the model's result
}

type Snapshot struct {
	G    map[string]*Term
	Heap map[int]Val
}

type Machine struct {
	E      *Engine
	Frames []*Frame
	Heap   map[int]Val
	G      map[string]*Term
	PC     []*Term
	Entry  *Snapshot
	Top    *TopCtx
	Steps  int
	Trace  []string
	Dead   bool
	Z3Ext  bool
	Locals map[string]Val // spec-visible ghost/let bindings
	W      *WriteLog
	Stop   *StopAt
	Probe  bool
	SpecView bool
	InvTag map[*Term]string // assumed loop invariants: term -> "<loop>:<label>"
}

// TopCtx describes the function under verification.
type TopCtx struct {
	Fn       *ssa.Function
	Name     string
	C        *Contract
	Args     []Val
	ArgNames []string
	Lets     map[string]Val
	Demands  []*Term
}

func (m *Machine) Clone() *Machine {
	n := &Machine{E: m.E, Entry: m.Entry, Top: m.Top, Steps: m.Steps, Z3Ext: m.Z3Ext, W: m.W, Stop: m.Stop, Probe: m.Probe}
	n.Frames = make([]*Frame, len(m.Frames))
	for i, f := range m.Frames {
		g := *f
		g.Env = make(map[ssa.Value]Val, len(f.Env))
		for k, v := range f.Env {
			g.Env[k] = v
		}
		g.Loops = make(map[int]*LoopCtx, len(f.Loops))
		for k, v := range f.Loops {
			c := *v
			g.Loops[k] = &c
		}
		g.Defers = append([]func(*Machine){}, f.Defers...)
		n.Frames[i] = &g
	}
	n.Heap = make(map[int]Val, len(m.Heap))
	for k, v := range m.Heap {
		n.Heap[k] = v
	}
	n.G = make(map[string]*Term, len(m.G))
	for k, v := range m.G {
		n.G[k] = v
	}
	n.PC = append([]*Term{}, m.PC...)
	n.Trace = append([]string{}, m.Trace...)
	if m.InvTag != nil {
		n.InvTag = make(map[*Term]string, len(m.InvTag))
		for k, v := range m.InvTag {
			n.InvTag[k] = v
		}
	}
	if m.Locals != nil {
		n.Locals = map[string]Val{}
		for k, v := range m.Locals {
			n.Locals[k] = v
		}
	}
	return n
}

func (m *Machine) top() *Frame { return m.Frames[len(m.Frames)-1] }

func (m *Machine) AssumeT(t *Term) {
	if t.S == "true" {
		return
	}
	if t.S == "false" {
		m.Dead = true
	}
	m.PC = append(m.PC, t)
}

func (m *Machine) note(s string) { m.Trace = append(m.Trace, s) }

// state component access (lazy initial symbols)
func (m *Machine) GetG(name string, sort Sort) *Term {
	if t, ok := m.G[name]; ok {
		return t
	}
	t := m.E.D.Const(sanitize(name)+"0", sort)
	m.G[name] = t
	if m.Entry != nil {
		if _, ok := m.Entry.G[name]; !ok {
			m.Entry.G[name] = t
		}
	}
	return t
}

func (m *Machine) SetG(name string, t *Term) {
	m.G[name] = t
	if name == "bank" && !strings.HasPrefix(t.S, "(ite ") {
		m.bankNonNeg(t)
	}
	if m.W != nil {
		m.W.G[name] = true
	}
}

var (
	sortStore  = ArrSort(SBytes, SBytes)
	sortBank   = ArrSort(SBytes, ArrSort(SStr, SInt))
	sortSupply = ArrSort(SStr, SInt)
)

func (m *Machine) S() *Term { return m.GetG("S", sortStore) }
func (m *Machine) Bank() *Term {
	if _, ok := m.G["bank"]; !ok {
		t := m.GetG("bank", sortBank)
		m.bankNonNeg(t)
		return t
	}
	return m.G["bank"]
}

// bankNonNeg: x/bank never holds a negative balance (A-BANK); stated for every bank state the model creates.
func (m *Machine) bankNonNeg(t *Term) {
	if len(t.S) > 400 {
		// large store chains: name them first
		return
	}
	m.AssumeT(T(SBool, fmt.Sprintf("(forall ((a Bytes) (d Str)) (! (>= (select (select %s a) d) 0) :pattern ((select (select %s a) d))))", t.S, t.S)))
}
func (m *Machine) Supply() *Term { return m.GetG("supply", sortSupply) }

// ---------------- heap cells ----------------

func (E *Engine) newCellID() int { E.ncell++; return E.ncell }

func (m *Machine) NewCell(v Val) int {
	id := m.E.newCellID()
	m.Heap[id] = v
	return id
}

func getPath(v Val, path []int) Val {
	for _, i := range path {
		switch x := v.(type) {
		case *StructV:
			v = x.F[i]
		case *ArrV:
			v = x.Elems[i]
		default:
			panic(unsupported(fmt.Sprintf("getPath through %T", v)))
		}
	}
	return v
}

func setPath(v Val, path []int, nv Val) Val {
	if len(path) == 0 {
		return nv
	}
	switch x := v.(type) {
	case *StructV:
		c := &StructV{Typ: x.Typ, F: append([]Val{}, x.F...)}
		c.F[path[0]] = setPath(x.F[path[0]], path[1:], nv)
		return c
	case *ArrV:
		c := &ArrV{Elems: append([]Val{}, x.Elems...)}
		c.Elems[path[0]] = setPath(x.Elems[path[0]], path[1:], nv)
		return c
	}
	panic(unsupported(fmt.Sprintf("setPath through %T", v)))
}

type unsupportedErr struct{ msg string }

func unsupported(msg string) unsupportedErr { return unsupportedErr{msg} }

func (m *Machine) Load(p Val) Val {
	switch x := p.(type) {
	case *PtrV:
		c, ok := m.Heap[x.Cell]
		if !ok {
			panic(unsupported("load from unknown cell"))
		}
		if fw, isF := c.(*ForwardV); isF {
			return m.loadSym(&SymPtrV{P: fw.To.P, Root: fw.To.Root, Path: x.Path, Elem: x.Elem})
		}
		return getPath(c, x.Path)
	case *SymPtrV:
		return m.loadSym(x)
	case *NilV:
		// nil dereference: the path panics
		m.Dead = true
		m.note("nil dereference")
		return m.E.zeroValue(x.Typ.Underlying().(*types.Pointer).Elem())
	case *ElemPtrV:
		return m.loadElem(x)
	}
	panic(unsupported(fmt.Sprintf("load through %T", p)))
}

func (m *Machine) StoreTo(p Val, v Val) {
	switch x := p.(type) {
	case *PtrV:
		c := m.Heap[x.Cell]
		if fw, isF := c.(*ForwardV); isF {
			m.storeSym(&SymPtrV{P: fw.To.P, Root: fw.To.Root, Path: x.Path, Elem: x.Elem}, v)
			return
		}
		m.Heap[x.Cell] = setPath(c, x.Path, v)
		if m.W != nil {
			m.W.Cells[x.Cell] = true
		}
		return
	case *SymPtrV:
		m.storeSym(x, v)
		return
	case *ElemPtrV:
		m.storeElem(x, v)
		return
	}
	panic(unsupported(fmt.Sprintf("store through %T", p)))
}

// ---------------- zero / symbolic values ----------------

func (E *Engine) zeroValue(t types.Type) Val {
	if s, ok := leafSortOf(t); ok {
		switch typeKey(t) {
		case tTime:
			E.D.Declare("tzero", "(define-fun tzero () Int (- 62135596800000000000))")
			return tzero()
		case tDec:
			return DecInt(0)
		}
		switch s {
		case SInt:
			return IntLit(0)
		case SBool:
			return False
		case SStr:
			return E.D.StrLit("")
		case SBytes:
			return T(SBytes, "bnil")
		}
	}
	if dec, ok := isCoinsType(t); ok {
		return E.emptyCoins(dec)
	}
	if isOpaqueType(t) {
		return &OpaqueV{Tag: "ctx", Typ: t}
	}
	switch u := t.Underlying().(type) {
	case *types.Struct:
		sv := &StructV{Typ: t, F: make([]Val, u.NumFields())}
		for i := 0; i < u.NumFields(); i++ {
			sv.F[i] = E.zeroValue(u.Field(i).Type())
		}
		return sv
	case *types.Array:
		av := &ArrV{Elems: make([]Val, u.Len())}
		for i := range av.Elems {
			av.Elems[i] = E.zeroValue(u.Elem())
		}
		return av
	case *types.Slice:
		return &SeqV{Elem: u.Elem(), Len: IntLit(0), Conc: []Val{}, IsNil: True}
	case *types.Pointer, *types.Map, *types.Signature, *types.Interface, *types.Chan:
		return &NilV{Typ: t}
	}
	panic(unsupported("zero value of " + typeKey(t)))
}

func tzero() *Term { return T(SInt, "tzero") }

// symbolicValue creates an unconstrained value of type t (inputs, havoc, results of assumed calls).
func (m *Machine) symbolicValue(t types.Type, hint string) Val {
	E := m.E
	if s, ok := leafSortOf(t); ok {
		return E.D.Fresh(hint, s)
	}
	if dec, ok := isCoinsType(t); ok {
		return m.freshCoins(dec, hint, true)
	}
	if isOpaqueType(t) {
		return &OpaqueV{Tag: "ctx", Typ: t}
	}
	switch u := t.Underlying().(type) {
	case *types.Struct:
		sv := &StructV{Typ: t, F: make([]Val, u.NumFields())}
		for i := 0; i < u.NumFields(); i++ {
			sv.F[i] = m.symbolicValue(u.Field(i).Type(), hint+"_"+u.Field(i).Name())
		}
		return sv
	case *types.Pointer:
		if _, isStruct := u.Elem().Underlying().(*types.Struct); isStruct {
			// a distinct input object with symbolic contents
			id := m.NewCell(m.symbolicValue(u.Elem(), hint))
			if nullablePointee[typeKey(u.Elem())] {
				return &PtrV{Cell: id, Elem: u.Elem(), Nil: E.D.Fresh(hint+"_isnil", SBool)}
			}
			return &PtrV{Cell: id, Elem: u.Elem()}
		}
		return &OpaqueV{Tag: "ptr:" + typeKey(t), Typ: t}
	case *types.Slice:
		return m.freshSeq(u.Elem(), hint)
	case *types.Interface:
		return &OpaqueV{Tag: "iface:" + typeKey(t), Typ: t}
	case *types.Signature:
		return &OpaqueV{Tag: "func", Typ: t}
	case *types.Map:
		return &OpaqueV{Tag: "map", Typ: t}
	case *types.Array:
		av := &ArrV{Elems: make([]Val, u.Len())}
		for i := range av.Elems {
			av.Elems[i] = m.symbolicValue(u.Elem(), fmt.Sprintf("%s_%d", hint, i))
		}
		return av
	}
	return &OpaqueV{Tag: "unsupported:" + typeKey(t), Typ: t}
}

func (m *Machine) freshSeq(elem types.Type, hint string) *SeqV {
	sq := &SeqV{Elem: elem, Len: m.E.D.Fresh(hint+"_len", SInt)}
	m.AssumeT(Ge(sq.Len, IntLit(0)))
	for _, l := range seqLeaves(elem) {
		sq.Leaves = append(sq.Leaves, m.E.D.Fresh(hint+"_"+l.Path, ArrSort(SInt, l.Sort)))
	}
	if _, isPtr := elem.Underlying().(*types.Pointer); isPtr {
		// pointer elements: fresh region of pairwise distinct objects
		m.assumeFreshRegion(sq)
	}
	return sq
}

// seqLeaves: leaves of one element of a sequence. Pointer elements have the single leaf "#ptr".
func seqLeaves(elem types.Type) []Leaf {
	if _, ok := elem.Underlying().(*types.Pointer); ok {
		return []Leaf{{"#ptr", SInt}}
	}
	return leavesOf(elem)
}

// ---------------- running ----------------

type pathEnd struct {
	M       *Machine
	Results []Val
	Panic   bool
	Reason  string
}

// Run executes machine m until its frame stack is empty; forks go to the worklist.
func (E *Engine) Run(m0 *Machine, onEnd func(pe pathEnd)) {
	work := []*Machine{m0}
	for len(work) > 0 {
		m := work[len(work)-1]
		work = work[:len(work)-1]
		E.npaths++
		if E.npaths > E.Limits.MaxPaths {
			panic(unsupported(fmt.Sprintf("path limit %d exceeded", E.Limits.MaxPaths)))
		}
		E.runOne(m, &work, onEnd)
	}
}

func (E *Engine) runOne(m *Machine, work *[]*Machine, onEnd func(pe pathEnd)) {
	for {
		if m.Dead {
			return
		}
		if len(m.Frames) == 0 {
			return
		}
		m.Steps++
		if m.Steps > E.Limits.MaxSteps {
			panic(unsupported("step limit exceeded"))
		}
		f := m.top()
		if f.Idx >= len(f.Block.Instrs) {
			panic(unsupported("fell off block"))
		}
		ins := f.Block.Instrs[f.Idx]
		f.Idx++
		done := E.step(m, f, ins, work, onEnd)
		if done {
			return
		}
	}
}

func (m *Machine) val(f *Frame, v ssa.Value) Val {
	switch x := v.(type) {
	case *ssa.Const:
		return m.E.constVal(x)
	case *ssa.Function:
		return &ClosureV{Fn: x}
	case *ssa.Global:
		return m.E.globalPtr(m, x)
	case *ssa.FreeVar:
		for i, fv := range f.Fn.FreeVars {
			if fv == x {
				return f.Bind[i]
			}
		}
		panic(unsupported("free var not bound"))
	case *ssa.Builtin:
		return &OpaqueV{Tag: "builtin:" + x.Name()}
	}
	r, ok := f.Env[v]
	if !ok {
		panic(unsupported(fmt.Sprintf("value %s (%T) not in env of %s", v.Name(), v, f.Fn.Name())))
	}
	return r
}

func (E *Engine) constVal(c *ssa.Const) Val {
	t := c.Type()
	if c.Value == nil {
		// nil or zero value
		if typeKey(t) == "error" {
			return IntLit(0)
		}
		return E.zeroValue(t)
	}
	switch c.Value.Kind() {
	case constant.Bool:
		if constant.BoolVal(c.Value) {
			return True
		}
		return False
	case constant.Int:
		n, ok := constant.Int64Val(c.Value)
		if ok {
			return IntLit(n)
		}
		bi, _ := new(big.Int).SetString(c.Value.ExactString(), 10)
		return BigLit(bi)
	case constant.String:
		return E.D.StrLit(constant.StringVal(c.Value))
	}
	panic(unsupported("constant " + c.String()))
}

// package-level variables: a per-run cell holding their (abstract) value
func (E *Engine) globalPtr(m *Machine, g *ssa.Global) Val {
	name := g.Pkg.Pkg.Path() + "." + g.Name()
	return &GlobalPtrV{Name: name, G: g}
}

type GlobalPtrV struct {
	Name string
	G    *ssa.Global
}

// ElemPtrV is &s[i] for a sequence value.
type ElemPtrV struct {
	Seq   Val // *SeqV or *CoinsV
	Idx   *Term
	Path  []int
	Owner Val // pointer to the variable holding the slice, when known (for write-back)
}

func (E *Engine) step(m *Machine, f *Frame, ins ssa.Instruction, work *[]*Machine, onEnd func(pathEnd)) (done bool) {
	switch x := ins.(type) {
	case *ssa.DebugRef:
		return false
	case *ssa.Alloc:
		elem := x.Type().(*types.Pointer).Elem()
		id := m.NewCell(E.zeroValue(elem))
		f.Env[x] = &PtrV{Cell: id, Elem: elem}
	case *ssa.FieldAddr:
		f.Env[x] = m.fieldAddr(m.val(f, x.X), x.Field, x.Type().(*types.Pointer).Elem())
	case *ssa.Field:
		sv, ok := m.val(f, x.X).(*StructV)
		if !ok {
			f.Env[x] = m.opaqueField(m.val(f, x.X), x)
		} else {
			f.Env[x] = sv.F[x.Field]
		}
	case *ssa.IndexAddr:
		f.Env[x] = m.indexAddr(f, x)
	case *ssa.Index:
		f.Env[x] = m.indexVal(m.val(f, x.X), m.val(f, x.Index))
	case *ssa.UnOp:
		f.Env[x] = m.unop(f, x)
	case *ssa.BinOp:
		f.Env[x] = m.binop(x.Op, m.val(f, x.X), m.val(f, x.Y), x.X.Type())
	case *ssa.Store:
		m.StoreTo(m.val(f, x.Addr), m.val(f, x.Val))
	case *ssa.Extract:
		tv := m.val(f, x.Tuple).(*TupleV)
		f.Env[x] = tv.Vs[x.Index]
	case *ssa.Phi:
		// handled at block entry
		panic(unsupported("stray phi"))
	case *ssa.MakeInterface:
		f.Env[x] = m.makeInterface(m.val(f, x.X), x.X.Type(), x.Type())
	case *ssa.ChangeInterface:
		f.Env[x] = m.val(f, x.X)
	case *ssa.ChangeType:
		f.Env[x] = m.val(f, x.X)
	case *ssa.Convert:
		f.Env[x] = m.convert(m.val(f, x.X), x.X.Type(), x.Type())
	case *ssa.MakeClosure:
		b := make([]Val, len(x.Bindings))
		for i, bv := range x.Bindings {
			b[i] = m.val(f, bv)
		}
		f.Env[x] = &ClosureV{Fn: x.Fn.(*ssa.Function), Bind: b}
	case *ssa.MakeMap:
		mt := x.Type().Underlying().(*types.Map)
		f.Env[x] = m.makeMap(mt)
	case *ssa.MapUpdate:
		m.mapUpdate(m.val(f, x.Map), m.val(f, x.Key), m.val(f, x.Value))
	case *ssa.Lookup:
		f.Env[x] = m.lookup(m.val(f, x.X), m.val(f, x.Index), x.CommaOk, x.Type())
	case *ssa.Slice:
		f.Env[x] = m.sliceOp(f, x)
	case *ssa.MakeSlice:
		panic(unsupported("make([]T) in " + f.Fn.Name()))
	case *ssa.TypeAssert:
		f.Env[x] = m.typeAssert(m.val(f, x.X), x)
	case *ssa.Defer:
		// iter.Close(), telemetry: dropped. Deferred closures that assign results are not supported.
		if cl, ok := x.Call.Value.(*ssa.MakeClosure); ok {
			_ = cl
			m.note("defer of closure dropped")
		}
	case *ssa.RunDefers:
	case *ssa.Call:
		return E.call(m, f, x, work, onEnd)
	case *ssa.If:
		return E.branch(m, f, x, work, onEnd)
	case *ssa.Jump:
		return E.gotoBlock(m, f, f.Block.Succs[0], work, onEnd)
	case *ssa.Return:
		res := make([]Val, len(x.Results))
		for i, r := range x.Results {
			res[i] = m.val(f, r)
		}
		return E.ret(m, f, res, onEnd)
	case *ssa.Panic:
		onEnd(pathEnd{M: m, Panic: true, Reason: "explicit panic in " + f.Fn.Name()})
		return true
	default:
		panic(unsupported(fmt.Sprintf("instruction %T in %s", ins, f.Fn.Name())))
	}
	return false
}

func (E *Engine) ret(m *Machine, f *Frame, res []Val, onEnd func(pathEnd)) bool {
	if m.Stop != nil && len(m.Frames) <= m.Stop.Depth {
		m.Dead = true
		return true
	}
	m.Frames = m.Frames[:len(m.Frames)-1]
	if len(m.Frames) == 0 {
		onEnd(pathEnd{M: m, Results: res})
		return true
	}
	caller := m.top()
	if f.OnRet != nil {
		if v, ok := f.Call.(ssa.Value); ok {
			caller.Env[v] = f.OnRet(m, res)
		}
		return false
	}
	if f.Call != nil {
		if v, ok := f.Call.(ssa.Value); ok {
			switch len(res) {
			case 0:
				caller.Env[v] = &TupleV{}
			case 1:
				caller.Env[v] = res[0]
			default:
				caller.Env[v] = &TupleV{Vs: res}
			}
		}
	}
	return false
}

func (E *Engine) branch(m *Machine, f *Frame, x *ssa.If, work *[]*Machine, onEnd func(pathEnd)) bool {
	c, ok := m.val(f, x.Cond).(*Term)
	if !ok {
		panic(unsupported("non-term condition"))
	}
	tb, fb := f.Block.Succs[0], f.Block.Succs[1]
	switch c.S {
	case "true":
		return E.gotoBlock(m, f, tb, work, onEnd)
	case "false":
		return E.gotoBlock(m, f, fb, work, onEnd)
	}
	// fork: the clone takes the false branch
	m2 := m.Clone()
	f2 := m2.top()
	m2.AssumeT(Not(c))
	m2.note(fmt.Sprintf("%s.%d:F", f.Fn.Name(), f.Block.Index))
	if !E.gotoBlock(m2, f2, f2.Block.Succs[1], work, onEnd) {
		*work = append(*work, m2)
	}
	m.AssumeT(c)
	m.note(fmt.Sprintf("%s.%d:T", f.Fn.Name(), f.Block.Index))
	return E.gotoBlock(m, f, tb, work, onEnd)
}

// gotoBlock transfers control, resolving phis; loop heads are handled by loops.go.
func (E *Engine) gotoBlock(m *Machine, f *Frame, b *ssa.BasicBlock, work *[]*Machine, onEnd func(pathEnd)) bool {
	from := f.Block
	if m.Stop != nil && len(m.Frames) == m.Stop.Depth && f.Fn == m.Stop.Loop.Head.Parent() && !m.Stop.Loop.Body[b.Index] {
		m.Dead = true
		return true
	}
	if li := loopInfoOf(f.Fn); li != nil {
		if l := li.heads[b.Index]; l != nil {
			if stop := E.atLoopHead(m, f, l, from, b, work, onEnd); stop {
				return true
			}
			return false
		}
	}
	m.enterBlock(f, from, b)
	return false
}

func (m *Machine) enterBlock(f *Frame, from, b *ssa.BasicBlock) {
	// evaluate phis simultaneously
	pi := -1
	for i, p := range b.Preds {
		if p == from {
			pi = i
		}
	}
	var phis []*ssa.Phi
	var vals []Val
	for _, ins := range b.Instrs {
		ph, ok := ins.(*ssa.Phi)
		if !ok {
			break
		}
		phis = append(phis, ph)
		vals = append(vals, m.val(f, ph.Edges[pi]))
	}
	for i, ph := range phis {
		f.Env[ph] = vals[i]
	}
	f.Prev = from
	f.Block = b
	f.Idx = len(phis)
}

// ---------------- addresses ----------------

func (m *Machine) fieldAddr(p Val, field int, elem types.Type) Val {
	switch x := p.(type) {
	case *PtrV:
		return &PtrV{Cell: x.Cell, Path: append(append([]int{}, x.Path...), field), Elem: elem}
	case *SymPtrV:
		return &SymPtrV{P: x.P, Root: x.Root, Path: append(append([]int{}, x.Path...), field), Elem: elem}
	case *ElemPtrV:
		return &ElemPtrV{Seq: x.Seq, Idx: x.Idx, Path: append(append([]int{}, x.Path...), field), Owner: x.Owner}
	case *NilV:
		m.Dead = true
		return &NilV{Typ: types.NewPointer(elem)}
	case *OpaqueV:
		return &OpaqueV{Tag: x.Tag + "." + fmt.Sprint(field), Typ: types.NewPointer(elem), X: x}
	}
	panic(unsupported(fmt.Sprintf("fieldAddr on %T", p)))
}

func (m *Machine) opaqueField(v Val, x *ssa.Field) Val {
	if o, ok := v.(*OpaqueV); ok {
		st := x.X.Type().Underlying().(*types.Struct)
		name := st.Field(x.Field).Name()
		if o.Tag == "header" && name == "Time" {
			return nowTerm()
		}
		return &OpaqueV{Tag: o.Tag + "." + name, Typ: x.Type()}
	}
	panic(unsupported(fmt.Sprintf("field of %T", v)))
}

func nowTerm() *Term { return T(SInt, "now") }

func (m *Machine) indexAddr(f *Frame, x *ssa.IndexAddr) Val {
	base := m.val(f, x.X)
	idx := m.val(f, x.Index).(*Term)
	switch b := base.(type) {
	case *PtrV: // pointer to array
		n, ok := isIntLit(idx)
		if !ok {
			panic(unsupported("symbolic index into array"))
		}
		return &PtrV{Cell: b.Cell, Path: append(append([]int{}, b.Path...), int(n.Int64())), Elem: x.Type().(*types.Pointer).Elem()}
	case *SeqV, *CoinsV:
		return &ElemPtrV{Seq: base, Idx: idx}
	}
	panic(unsupported(fmt.Sprintf("indexAddr on %T", base)))
}

func (m *Machine) indexVal(base Val, idx Val) Val {
	switch b := base.(type) {
	case *ArrV:
		n, ok := isIntLit(idx.(*Term))
		if !ok {
			panic(unsupported("symbolic index into array value"))
		}
		return b.Elems[n.Int64()]
	}
	panic(unsupported(fmt.Sprintf("index on %T", base)))
}

// ---------------- operators ----------------


func (m *Machine) unop(f *Frame, x *ssa.UnOp) Val {
	v := m.val(f, x.X)
	switch x.Op {
	case token.MUL:
		if g, ok := v.(*GlobalPtrV); ok {
			return m.loadGlobal(g, x.Type())
		}
		return m.Load(v)
	case token.NOT:
		return Not(v.(*Term))
	case token.SUB:
		return Neg(v.(*Term))
	}
	panic(unsupported("unop " + x.Op.String()))
}

func (m *Machine) binop(op token.Token, a, b Val, typ types.Type) Val {
	at, aok := a.(*Term)
	bt, bok := b.(*Term)
	if aok && bok {
		switch op {
		case token.ADD:
			if at.Sort == SStr {
				panic(unsupported("string concatenation"))
			}
			return Add(at, bt)
		case token.SUB:
			return Sub(at, bt)
		case token.MUL:
			return Mul(at, bt)
		case token.QUO:
			// Go integer division truncates toward zero; division by zero panics
			m.safeSite("div0", Neq(bt, IntLit(0)), "integer division by zero")
			q := App(SInt, "tdiv", at, bt)
			if _, lit := isIntLit(bt); !lit {
				// instance of the division lemma (a theorem of the definition of tdiv), stated on the product
				// so that the nonlinear term the code forms later (divisor * quotient) is already constrained
				m.AssumeT(Implies(And(Ge(at, IntLit(0)), Gt(bt, IntLit(0))),
					And(Ge(q, IntLit(0)), Le(Mul(bt, q), at), Lt(at, Add(Mul(bt, q), bt)))))
			}
			return q
		case token.REM:
			m.safeSite("div0", Neq(bt, IntLit(0)), "integer modulo by zero")
			return App(SInt, "tmod", at, bt)
		case token.EQL:
			return Eq(at, bt)
		case token.NEQ:
			return Neq(at, bt)
		case token.LSS:
			return Lt(at, bt)
		case token.LEQ:
			return Le(at, bt)
		case token.GTR:
			return Gt(at, bt)
		case token.GEQ:
			return Ge(at, bt)
		case token.LAND:
			return And(at, bt)
		case token.LOR:
			return Or(at, bt)
		}
		panic(unsupported("binop " + op.String()))
	}
	// comparisons with nil
	if op == token.EQL || op == token.NEQ {
		r := m.eqVal(a, b)
		if op == token.NEQ {
			return Not(r)
		}
		return r
	}
	panic(unsupported(fmt.Sprintf("binop %s on %T, %T", op, a, b)))
}

func (m *Machine) isNilTerm(v Val) *Term {
	switch x := v.(type) {
	case *NilV:
		return True
	case *PtrV:
		if x.Nil != nil && len(x.Path) == 0 {
			return x.Nil
		}
		return False
	case *ClosureV, *IterV, *MapV, *GlobalPtrV:
		return False
	case *SymPtrV:
		return False
	case *OpaqueV:
		return False
	case *SeqV:
		if x.IsNil != nil {
			return x.IsNil
		}
		return False
	case *CoinsV:
		return Eq(m.coinsLen(x), IntLit(0)) // nil-ness of coin slices is only used as emptiness
	case *IfaceV:
		if x.V == nil {
			return True
		}
		return False
	case *Term:
		switch x.Sort {
		case SBytes:
			return Eq(x, T(SBytes, "bnil"))
		case SInt:
			return Eq(x, IntLit(0))
		}
	}
	panic(unsupported(fmt.Sprintf("nil test on %T", v)))
}

func (m *Machine) eqVal(a, b Val) *Term {
	if _, ok := a.(*NilV); ok {
		return m.isNilTerm(b)
	}
	if _, ok := b.(*NilV); ok {
		return m.isNilTerm(a)
	}
	if ia, ok := a.(*IfaceV); ok {
		if ib, ok := b.(*IfaceV); ok {
			if ia.V == nil || ib.V == nil {
				if ia.V == nil && ib.V == nil {
					return True
				}
				return False
			}
			return m.eqVal(ia.V, ib.V)
		}
	}
	if pa, ok := a.(*PtrV); ok {
		if pb, ok := b.(*PtrV); ok {
			if pa.Cell == pb.Cell && fmt.Sprint(pa.Path) == fmt.Sprint(pb.Path) {
				return True
			}
			return False
		}
	}
	if sa, ok := a.(*StructV); ok {
		if sb, ok := b.(*StructV); ok {
			var cs []*Term
			for i := range sa.F {
				cs = append(cs, m.eqVal(sa.F[i], sb.F[i]))
			}
			return And(cs...)
		}
	}
	if ta, ok := a.(*Term); ok {
		if tb, ok := b.(*Term); ok {
			return Eq(ta, tb)
		}
	}
	panic(unsupported(fmt.Sprintf("equality on %T, %T", a, b)))
}

// IfaceV is a non-error interface value holding a concrete value.
type IfaceV struct {
	Dyn types.Type
	V   Val
}

func (m *Machine) makeInterface(v Val, from, to types.Type) Val {
	if typeKey(to) == "error" {
		// a concrete error value converted to error: non-nil
		if t, ok := v.(*Term); ok && t.Sort == SInt {
			return t
		}
		return m.E.freshErr()
	}
	return &IfaceV{Dyn: from, V: v}
}

// sentinelErr is the value of a package-level error variable: positive, below the literal range of freshErr, and
// different from every other sentinel (registered errors differ in codespace/code, errors.New values in identity).
func (E *Engine) sentinelErr(short string) *Term {
	name := "err_" + sanitize(short)
	c := E.D.Const(name, SInt)
	if E.sentinels == nil {
		E.sentinels = map[string]bool{}
	}
	if !E.sentinels[name] {
		E.D.Axiom(fmt.Sprintf("(and (> %s 0) (< %s 900))", c.S, c.S))
		for other := range E.sentinels {
			a, b := name, other
			if b < a {
				a, b = b, a
			}
			E.D.Axiom(fmt.Sprintf("(not (= %s %s))", a, b))
		}
		E.sentinels[name] = true
	}
	return c
}

// freshErr returns a new definitely-non-nil error (a positive literal, so err == nil folds syntactically).
func (E *Engine) freshErr() *Term {
	E.nerr++
	return IntLit(1000 + E.nerr)
}

func (m *Machine) typeAssert(v Val, x *ssa.TypeAssert) Val {
	iv, ok := v.(*IfaceV)
	if !ok {
		panic(unsupported(fmt.Sprintf("type assertion on %T", v)))
	}
	match := iv.V != nil && types.Identical(iv.Dyn, x.AssertedType)
	if x.CommaOk {
		if match {
			return &TupleV{Vs: []Val{iv.V, True}}
		}
		return &TupleV{Vs: []Val{m.E.zeroValue(x.AssertedType), False}}
	}
	if !match {
		m.Dead = true
		return m.E.zeroValue(x.AssertedType)
	}
	return iv.V
}

func (m *Machine) convert(v Val, from, to types.Type) Val {
	fs, fok := leafSortOf(from)
	ts, tok := leafSortOf(to)
	if fok && tok {
		t := v.(*Term)
		if fs == ts {
			if fs == SInt {
				return m.intConvert(t, from, to)
			}
			return t
		}
		if fs == SStr && ts == SBytes {
			m.E.D.Fun("s2b", []Sort{SStr}, SBytes)
			m.E.D.Fun("b2s", []Sort{SBytes}, SStr)
			m.E.D.Axiom("(forall ((s Str)) (! (= (b2s (s2b s)) s) :pattern ((s2b s))))")
			return App(SBytes, "s2b", t)
		}
		if fs == SBytes && ts == SStr {
			m.E.D.Fun("s2b", []Sort{SStr}, SBytes)
			m.E.D.Fun("b2s", []Sort{SBytes}, SStr)
			m.E.D.Axiom("(forall ((s Str)) (! (= (b2s (s2b s)) s) :pattern ((s2b s))))")
			return App(SStr, "b2s", t)
		}
	}
	return v
}

func (m *Machine) intConvert(t *Term, from, to types.Type) Val {
	fb, ok1 := from.Underlying().(*types.Basic)
	tb, ok2 := to.Underlying().(*types.Basic)
	if !ok1 || !ok2 {
		return t
	}
	fu := fb.Info()&types.IsUnsigned != 0
	tu := tb.Info()&types.IsUnsigned != 0
	if !fu && tu {
		// int64 -> uint64 wraps negatives; the module only converts non-negative quantities, which is
		// what the sweep checks (safe:conv) and what the continuing path assumes is NOT required: model exactly.
		return Ite(Ge(t, IntLit(0)), t, Add(t, T(SInt, "18446744073709551616")))
	}
	return t
}

// ---------------- maps ----------------

func (m *Machine) makeMap(mt *types.Map) Val {
	ks, ok := leafSortOf(mt.Key())
	if !ok {
		panic(unsupported("map key type " + typeKey(mt.Key())))
	}
	st := &MapState{KeyT: mt.Key(), ElemT: mt.Elem()}
	for _, l := range leavesOf(mt.Elem()) {
		st.M = append(st.M, m.E.D.Fresh("map_"+l.Path, ArrSort(ks, l.Sort)))
	}
	// empty map: presence array is constant false
	st.Has = T(ArrSort(ks, SBool), fmt.Sprintf("((as const %s) false)", ArrSort(ks, SBool)))
	id := m.NewCell(st)
	return &MapV{Cell: id}
}

func (m *Machine) mapUpdate(mv, k, v Val) {
	mp, ok := mv.(*MapV)
	if !ok {
		panic(unsupported("map update on non-map"))
	}
	st := m.Heap[mp.Cell].(*MapState)
	ns := &MapState{KeyT: st.KeyT, ElemT: st.ElemT, Has: Store(st.Has, k.(*Term), True)}
	leaves := m.flatten(v, st.ElemT)
	for i, arr := range st.M {
		ns.M = append(ns.M, Store(arr, k.(*Term), leaves[i]))
	}
	m.Heap[mp.Cell] = ns
	if m.W != nil {
		m.W.Cells[mp.Cell] = true
	}
}

func (m *Machine) lookup(mv, k Val, commaOk bool, typ types.Type) Val {
	mp, ok := mv.(*MapV)
	if !ok {
		panic(unsupported(fmt.Sprintf("lookup on %T", mv)))
	}
	st := m.Heap[mp.Cell].(*MapState)
	has := Select(st.Has, k.(*Term))
	var leaves []*Term
	zero := m.flatten(m.E.zeroValue(st.ElemT), st.ElemT)
	for i, arr := range st.M {
		leaves = append(leaves, Ite(has, Select(arr, k.(*Term)), zero[i]))
	}
	v := m.unflatten(leaves, st.ElemT)
	if commaOk {
		return &TupleV{Vs: []Val{v, has}}
	}
	return v
}

// flatten / unflatten a value of a leaf-enumerable type into its leaves (same order as leavesOf)
func (m *Machine) flatten(v Val, t types.Type) []*Term {
	if _, ok := leafSortOf(t); ok {
		tt, ok := v.(*Term)
		if !ok {
			panic(unsupported(fmt.Sprintf("flatten leaf %s: %T", typeKey(t), v)))
		}
		return []*Term{tt}
	}
	if _, ok := isCoinsType(t); ok {
		c := m.asCoins(v)
		return []*Term{c.M}
	}
	switch u := t.Underlying().(type) {
	case *types.Struct:
		sv, ok := v.(*StructV)
		if !ok {
			panic(unsupported(fmt.Sprintf("flatten struct %s: %T", typeKey(t), v)))
		}
		var out []*Term
		for i := 0; i < u.NumFields(); i++ {
			out = append(out, m.flatten(sv.F[i], u.Field(i).Type())...)
		}
		return out
	case *types.Slice:
		sq := m.asSeq(v, u.Elem())
		return m.seqValueLeaves(sq)
	case *types.Pointer:
		if _, isStruct := u.Elem().Underlying().(*types.Struct); isStruct {
			switch p := v.(type) {
			case *NilV:
				// a nil pointer field stored by value (e.g. the zero value of a map element): the zero pointee (nil-ness is not kept, A-VALSEQ)
				return m.flatten(m.E.zeroValue(u.Elem()), u.Elem())
			case *PtrV, *SymPtrV:
				if pp, isP := p.(*PtrV); isP && pp.Nil != nil {
					panic(unsupported("a possibly-nil pointer stored by value"))
				}
				m.E.Assume("A-VALSEQ", "a struct with pointer fields that is stored in a slice (e.g. []AllianceValidator) is stored by value: the pointees are copied at the store and re-materialised as fresh objects at each load; sound as long as nothing relies on a write through one reference being seen through the slice element (holds in RebalanceBondTokenWeights: each element is loaded once)")
				return m.flatten(m.Load(p), u.Elem())
			}
		}
	}
	if _, isStruct := t.Underlying().(*types.Struct); !isStruct {
		if _, isSlice := t.Underlying().(*types.Slice); !isSlice {
			return []*Term{IntLit(0)} // "#opaque"/"#ptr" leaf: contents not modelled
		}
	}
	panic(unsupported("flatten " + typeKey(t)))
}

func (m *Machine) unflatten(leaves []*Term, t types.Type) Val {
	v, rest := m.unflat(leaves, t)
	if len(rest) != 0 {
		panic("unflatten: leftover leaves")
	}
	return v
}

func (m *Machine) unflat(leaves []*Term, t types.Type) (Val, []*Term) {
	if _, ok := leafSortOf(t); ok {
		return leaves[0], leaves[1:]
	}
	if dec, ok := isCoinsType(t); ok {
		c := &CoinsV{Dec: dec, M: leaves[0]}
		return c, leaves[1:]
	}
	switch u := t.Underlying().(type) {
	case *types.Struct:
		sv := &StructV{Typ: t, F: make([]Val, u.NumFields())}
		for i := 0; i < u.NumFields(); i++ {
			sv.F[i], leaves = m.unflat(leaves, u.Field(i).Type())
		}
		return sv, leaves
	case *types.Slice:
		el := u.Elem()
		vel := el
		if p, ok := el.Underlying().(*types.Pointer); ok {
			vel = p.Elem()
		}
		n := len(leavesOf(vel))
		if !strings.Contains(leaves[0].S, "q_") {
			m.AssumeT(Ge(leaves[0], IntLit(0))) // slice lengths are non-negative
		}
		if m.SpecView {
			// contract views read proto []*T fields by value
			return &SeqV{Elem: vel, Len: leaves[0], Leaves: leaves[1 : 1+n], IsNil: False}, leaves[1+n:]
		}
		sq := m.seqFromValueLeaves(el, leaves[0], leaves[1:1+n])
		return sq, leaves[1+n:]
	case *types.Pointer:
		if _, isStruct := u.Elem().Underlying().(*types.Struct); isStruct {
			v, rest := m.unflat(leaves, u.Elem())
			if m.SpecView {
				return v, rest
			}
			id := m.NewCell(v)
			return &PtrV{Cell: id, Elem: u.Elem()}, rest
		}
	}
	if _, isStruct := t.Underlying().(*types.Struct); !isStruct {
		return &OpaqueV{Tag: "stored:" + typeKey(t), Typ: t}, leaves[1:]
	}
	panic(unsupported("unflatten " + typeKey(t)))
}

// ---------------- misc helpers ----------------

func (m *Machine) loadGlobal(g *GlobalPtrV, t types.Type) Val {
	// package-level variables of the module: key prefixes, error sentinels, Rounder
	name := g.Name
	short := name[strings.LastIndex(name, ".")+1:]
	if typeKey(t) == "error" || strings.HasPrefix(short, "Err") {
		return m.E.sentinelErr(short)
	}
	if s, ok := leafSortOf(t); ok {
		switch {
		case s == SBytes:
			return m.E.D.Const("g_"+sanitize(short), SBytes)
		case name == modPath+"/x/alliance/types.Rounder":
			return DecRaw(pow10(16))
		}
		m.E.Assume("A-GLOBALS", "package-level variables are read as constants (never assigned after init; checked by the C19 effect checker)")
		return m.E.D.Const("g_"+sanitize(short), s)
	}
	if typeKey(t) == "*cosmossdk.io/errors.Error" {
		return m.E.sentinelErr(short)
	}
	return &OpaqueV{Tag: "global:" + name, Typ: t}
}

func sortedKeys(mm map[string]*Term) []string {
	var ks []string
	for k := range mm {
		ks = append(ks, k)
	}
	sort.Strings(ks)
	return ks
}
