package main

import (
	"fmt"
	"math/big"
	"sort"
	"strings"
	"sync"
)

// Sort is an SMT sort name as printed in SMT-LIB.
type Sort string

const (
	SInt   Sort = "Int"
	SBool  Sort = "Bool"
	SDec   Sort = "Dec"   // alias, defined by the prelude of the chosen reading (Int raw x 1e18, or Real)
	SStr   Sort = "Str"   // uninterpreted: strings with equality only
	SBytes Sort = "Bytes" // uninterpreted: byte strings with equality only (store keys, values, addresses)
)

func ArrSort(k, v Sort) Sort { return Sort(fmt.Sprintf("(Array %s %s)", k, v)) }

// Term is an immutable SMT term.
type Term struct {
	S    string
	Sort Sort
}

func (t *Term) String() string { return t.S }

func T(sort Sort, s string) *Term { return &Term{S: s, Sort: sort} }

var (
	True  = T(SBool, "true")
	False = T(SBool, "false")
)

func IntLit(n int64) *Term {
	if n < 0 {
		return T(SInt, fmt.Sprintf("(- %d)", -n))
	}
	return T(SInt, fmt.Sprintf("%d", n))
}

func BigLit(n *big.Int) *Term {
	if n.Sign() < 0 {
		return T(SInt, fmt.Sprintf("(- %s)", new(big.Int).Neg(n).String()))
	}
	return T(SInt, n.String())
}

// DecRaw is a decimal literal given by its raw 18-digit integer representation.
func DecRaw(n *big.Int) *Term {
	return T(SDec, fmt.Sprintf("(dlit %s)", BigLit(n).S))
}

func DecInt(n int64) *Term {
	r := new(big.Int).Mul(big.NewInt(n), pow10(18))
	return DecRaw(r)
}

func pow10(n int) *big.Int { return new(big.Int).Exp(big.NewInt(10), big.NewInt(int64(n)), nil) }

func isIntLit(t *Term) (*big.Int, bool) {
	s := t.S
	neg := false
	if strings.HasPrefix(s, "(- ") && strings.HasSuffix(s, ")") {
		s = s[3 : len(s)-1]
		neg = true
	}
	if len(s) == 0 {
		return nil, false
	}
	for _, c := range s {
		if c < '0' || c > '9' {
			return nil, false
		}
	}
	n, ok := new(big.Int).SetString(s, 10)
	if !ok {
		return nil, false
	}
	if neg {
		n.Neg(n)
	}
	return n, true
}

func App(sort Sort, op string, args ...*Term) *Term {
	var b strings.Builder
	b.WriteByte('(')
	b.WriteString(op)
	for _, a := range args {
		b.WriteByte(' ')
		b.WriteString(a.S)
	}
	b.WriteByte(')')
	return T(sort, b.String())
}

func Not(a *Term) *Term {
	switch a.S {
	case "true":
		return False
	case "false":
		return True
	}
	if strings.HasPrefix(a.S, "(not ") {
		return T(SBool, a.S[5:len(a.S)-1])
	}
	return App(SBool, "not", a)
}

func And(as ...*Term) *Term {
	var keep []*Term
	for _, a := range as {
		if a.S == "false" {
			return False
		}
		if a.S == "true" {
			continue
		}
		keep = append(keep, a)
	}
	if len(keep) == 0 {
		return True
	}
	if len(keep) == 1 {
		return keep[0]
	}
	return App(SBool, "and", keep...)
}

func Or(as ...*Term) *Term {
	var keep []*Term
	for _, a := range as {
		if a.S == "true" {
			return True
		}
		if a.S == "false" {
			continue
		}
		keep = append(keep, a)
	}
	if len(keep) == 0 {
		return False
	}
	if len(keep) == 1 {
		return keep[0]
	}
	return App(SBool, "or", keep...)
}

func Implies(a, b *Term) *Term {
	if a.S == "true" {
		return b
	}
	if a.S == "false" || b.S == "true" {
		return True
	}
	return App(SBool, "=>", a, b)
}

func Eq(a, b *Term) *Term {
	if a.S == b.S {
		return True
	}
	if x, ok := isIntLit(a); ok {
		if y, ok2 := isIntLit(b); ok2 {
			if x.Cmp(y) == 0 {
				return True
			}
			return False
		}
	}
	if a.Sort == SBool {
		if b.S == "true" {
			return a
		}
		if b.S == "false" {
			return Not(a)
		}
		if a.S == "true" {
			return b
		}
		if a.S == "false" {
			return Not(b)
		}
	}
	return App(SBool, "=", a, b)
}

func Neq(a, b *Term) *Term { return Not(Eq(a, b)) }

func Ite(c, a, b *Term) *Term {
	if c.S == "true" {
		return a
	}
	if c.S == "false" {
		return b
	}
	if a.S == b.S {
		return a
	}
	return App(a.Sort, "ite", c, a, b)
}

func cmpLit(op string, a, b *Term) (*Term, bool) {
	x, ok := isIntLit(a)
	y, ok2 := isIntLit(b)
	if !ok || !ok2 {
		return nil, false
	}
	c := x.Cmp(y)
	var r bool
	switch op {
	case "<":
		r = c < 0
	case "<=":
		r = c <= 0
	case ">":
		r = c > 0
	case ">=":
		r = c >= 0
	}
	if r {
		return True, true
	}
	return False, true
}

func Cmp(op string, a, b *Term) *Term {
	if r, ok := cmpLit(op, a, b); ok {
		return r
	}
	return App(SBool, op, a, b)
}
func Lt(a, b *Term) *Term { return Cmp("<", a, b) }
func Le(a, b *Term) *Term { return Cmp("<=", a, b) }
func Gt(a, b *Term) *Term { return Cmp(">", a, b) }
func Ge(a, b *Term) *Term { return Cmp(">=", a, b) }

func Add(a, b *Term) *Term {
	if x, ok := isIntLit(a); ok {
		if y, ok2 := isIntLit(b); ok2 {
			return BigLit(new(big.Int).Add(x, y))
		}
		if x.Sign() == 0 && a.Sort == b.Sort {
			return b
		}
	}
	if y, ok := isIntLit(b); ok && y.Sign() == 0 && a.Sort == b.Sort {
		return a
	}
	return App(a.Sort, "+", a, b)
}

func Sub(a, b *Term) *Term {
	if x, ok := isIntLit(a); ok {
		if y, ok2 := isIntLit(b); ok2 {
			return BigLit(new(big.Int).Sub(x, y))
		}
	}
	if y, ok := isIntLit(b); ok && y.Sign() == 0 && a.Sort == b.Sort {
		return a
	}
	return App(a.Sort, "-", a, b)
}

func Mul(a, b *Term) *Term {
	if x, ok := isIntLit(a); ok {
		if y, ok2 := isIntLit(b); ok2 {
			return BigLit(new(big.Int).Mul(x, y))
		}
	}
	return App(a.Sort, "*", a, b)
}

func Neg(a *Term) *Term {
	if x, ok := isIntLit(a); ok {
		return BigLit(new(big.Int).Neg(x))
	}
	return App(a.Sort, "-", a)
}

func Select(arr, idx *Term) *Term {
	// (select (store a i v) i) -> v for syntactically equal index
	vs := elemSort(arr.Sort)
	if strings.HasPrefix(arr.S, "(store ") {
		if a, i, v, ok := splitStore(arr.S); ok {
			if i == idx.S {
				return T(vs, v)
			}
			// distinct integer literals: skip the store
			if _, ok1 := isIntLit(T(SInt, i)); ok1 {
				if _, ok2 := isIntLit(idx); ok2 {
					return Select(T(arr.Sort, a), idx)
				}
			}
		}
	}
	return App(vs, "select", arr, idx)
}

func Store(arr, idx, v *Term) *Term { return App(arr.Sort, "store", arr, idx, v) }

func elemSort(s Sort) Sort {
	// "(Array K V)" -> V
	str := string(s)
	if !strings.HasPrefix(str, "(Array ") {
		panic("elemSort: not an array sort: " + str)
	}
	parts := splitSexp(str[1 : len(str)-1])
	return Sort(parts[2])
}

func keySort(s Sort) Sort {
	str := string(s)
	parts := splitSexp(str[1 : len(str)-1])
	return Sort(parts[1])
}

// splitSexp splits "a (b c) d" into top-level items.
func splitSexp(s string) []string {
	var out []string
	depth := 0
	start := -1
	inq := false
	for i := 0; i < len(s); i++ {
		c := s[i]
		if inq {
			if c == '|' {
				inq = false
			}
			continue
		}
		switch c {
		case '|':
			inq = true
			if start < 0 {
				start = i
			}
		case '(':
			if depth == 0 && start < 0 {
				start = i
			}
			depth++
		case ')':
			depth--
			if depth == 0 {
				out = append(out, s[start:i+1])
				start = -1
			}
		case ' ', '\n', '\t':
			if depth == 0 && start >= 0 {
				out = append(out, s[start:i])
				start = -1
			}
		default:
			if start < 0 {
				start = i
			}
		}
	}
	if start >= 0 {
		out = append(out, s[start:])
	}
	return out
}

func splitStore(s string) (a, i, v string, ok bool) {
	parts := splitSexp(s[1 : len(s)-1])
	if len(parts) != 4 || parts[0] != "store" {
		return "", "", "", false
	}
	return parts[1], parts[2], parts[3], true
}

// ---- declarations shared by all paths of a run ----

type Decls struct {
	mu     sync.Mutex
	order  []string
	seen   map[string]string // name -> declaration text
	nfresh map[string]int
	strs   map[string]string // string literal -> constant name
	bytesC map[string]string
	axioms []string // global axioms (quantified facts about declared functions)
	axseen map[string]bool
}

func NewDecls() *Decls {
	return &Decls{seen: map[string]string{}, nfresh: map[string]int{}, strs: map[string]string{}, bytesC: map[string]string{}, axseen: map[string]bool{}}
}

func (d *Decls) Declare(name string, decl string) {
	d.mu.Lock()
	defer d.mu.Unlock()
	if _, ok := d.seen[name]; ok {
		return
	}
	d.seen[name] = decl
	d.order = append(d.order, name)
}

func (d *Decls) Const(name string, sort Sort) *Term {
	d.Declare(name, fmt.Sprintf("(declare-fun %s () %s)", name, sort))
	return T(sort, name)
}

func (d *Decls) Fun(name string, args []Sort, ret Sort) {
	ss := make([]string, len(args))
	for i, a := range args {
		ss[i] = string(a)
	}
	d.Declare(name, fmt.Sprintf("(declare-fun %s (%s) %s)", name, strings.Join(ss, " "), ret))
}

func (d *Decls) Axiom(ax string) {
	d.mu.Lock()
	defer d.mu.Unlock()
	if d.axseen[ax] {
		return
	}
	d.axseen[ax] = true
	d.axioms = append(d.axioms, ax)
}

func sanitize(s string) string {
	var b strings.Builder
	for _, c := range s {
		if (c >= 'a' && c <= 'z') || (c >= 'A' && c <= 'Z') || (c >= '0' && c <= '9') || c == '_' {
			b.WriteRune(c)
		} else {
			b.WriteByte('_')
		}
	}
	return b.String()
}

func (d *Decls) Fresh(hint string, sort Sort) *Term {
	hint = sanitize(hint)
	d.mu.Lock()
	d.nfresh[hint]++
	n := d.nfresh[hint]
	d.mu.Unlock()
	return d.Const(fmt.Sprintf("%s!%d", hint, n), sort)
}

func (d *Decls) FreshName(hint string) string {
	hint = sanitize(hint)
	d.mu.Lock()
	d.nfresh[hint]++
	n := d.nfresh[hint]
	d.mu.Unlock()
	return fmt.Sprintf("%s!%d", hint, n)
}

// StrLit returns the constant for a Go string literal; distinct literals are asserted distinct.
func (d *Decls) StrLit(s string) *Term {
	d.mu.Lock()
	name, ok := d.strs[s]
	if !ok {
		name = "str_" + sanitize(s)
		if s == "" {
			name = "str_EMPTY"
		}
		for {
			clash := false
			for _, v := range d.strs {
				if v == name {
					clash = true
				}
			}
			if !clash {
				break
			}
			name += "_"
		}
		d.strs[s] = name
	}
	d.mu.Unlock()
	return d.Const(name, SStr)
}

func (d *Decls) BytesLit(b []byte) *Term {
	key := fmt.Sprintf("%x", b)
	d.mu.Lock()
	name, ok := d.bytesC[key]
	if !ok {
		name = "bytes_x" + key
		if len(b) == 0 {
			name = "bytes_empty"
		}
		d.bytesC[key] = name
	}
	d.mu.Unlock()
	return d.Const(name, SBytes)
}

// symbolsOf returns the identifiers of an S-expression string that are declared names.
func (d *Decls) symbolsOf(s string, into map[string]bool) {
	start := -1
	for i := 0; i <= len(s); i++ {
		var c byte = ' '
		if i < len(s) {
			c = s[i]
		}
		if c == '(' || c == ')' || c == ' ' || c == '\n' || c == '\t' {
			if start >= 0 {
				tok := s[start:i]
				if _, ok := d.seen[tok]; ok {
					into[tok] = true
				}
				start = -1
			}
			continue
		}
		if start < 0 {
			start = i
		}
	}
}

// DumpFor prints the declarations plus only those axioms that can be triggered by the given text: an axiom is
// kept when every declared symbol of (one of) its patterns occurs in the text or in an axiom already kept
// (axioms without a pattern are kept when they share a symbol). Dropping an axiom only weakens the hypotheses.
func (d *Decls) DumpFor(text string) string {
	d.mu.Lock()
	defer d.mu.Unlock()
	syms := map[string]bool{}
	d.symbolsOf(text, syms)
	type ax struct {
		text string
		pats []map[string]bool
		all  map[string]bool
		kept bool
	}
	var axs []*ax
	for _, a := range d.axioms {
		x := &ax{text: a, all: map[string]bool{}}
		d.symbolsOf(a, x.all)
		rest := a
		for {
			i := strings.Index(rest, ":pattern (")
			if i < 0 {
				break
			}
			rest = rest[i+len(":pattern "):]
			// balanced parenthesis group
			depth, j := 0, 0
			for j = 0; j < len(rest); j++ {
				if rest[j] == '(' {
					depth++
				} else if rest[j] == ')' {
					depth--
					if depth == 0 {
						break
					}
				}
			}
			ps := map[string]bool{}
			d.symbolsOf(rest[:j+1], ps)
			x.pats = append(x.pats, ps)
			rest = rest[j:]
		}
		axs = append(axs, x)
	}
	for changed := true; changed; {
		changed = false
		for _, x := range axs {
			if x.kept {
				continue
			}
			keep := false
			if len(x.pats) == 0 {
				for s := range x.all {
					if syms[s] {
						keep = true
					}
				}
				if len(x.all) == 0 {
					keep = true
				}
			}
			for _, p := range x.pats {
				ok := true
				for s := range p {
					if !syms[s] {
						ok = false
					}
				}
				if ok {
					keep = true
				}
			}
			if keep {
				x.kept = true
				changed = true
				for s := range x.all {
					syms[s] = true
				}
			}
		}
	}
	var b strings.Builder
	d.dumpDecls(&b)
	for _, x := range axs {
		if x.kept {
			b.WriteString("(assert " + x.text + ")\n")
		}
	}
	return b.String()
}

func (d *Decls) Dump() string {
	d.mu.Lock()
	defer d.mu.Unlock()
	var b strings.Builder
	d.dumpDecls(&b)
	for _, a := range d.axioms {
		b.WriteString("(assert " + a + ")\n")
	}
	return b.String()
}

func (d *Decls) dumpDecls(bp *strings.Builder) {
	b := bp
	for _, n := range d.order {
		b.WriteString(d.seen[n])
		b.WriteByte('\n')
	}
	// distinctness of literals
	if len(d.strs) > 1 {
		var names []string
		for _, v := range d.strs {
			names = append(names, v)
		}
		sort.Strings(names)
		b.WriteString("(assert (distinct " + strings.Join(names, " ") + "))\n")
	}
	{
		names := []string{"bnil"}
		for _, v := range d.bytesC {
			names = append(names, v)
		}
		sort.Strings(names)
		if len(names) > 1 {
			b.WriteString("(assert (distinct " + strings.Join(names, " ") + "))\n")
		}
	}
}
