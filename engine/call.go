package main

import (
	"fmt"
	"go/types"
	"strings"

	"golang.org/x/tools/go/ssa"
)

type ModelFn func(m *Machine, f *Frame, cc *ssa.CallCommon, args []Val) Val

var models = map[string]ModelFn{}
var invokeModels = map[string]ModelFn{}

// dependency functions whose real body is inlined instead of being modelled
var inlinedDeps = map[string]bool{
	"github.com/cosmos/cosmos-sdk/types/query.Paginate":                true,
	"github.com/cosmos/cosmos-sdk/types/query.getIterator":             true,
	"github.com/cosmos/cosmos-sdk/types/query.initPageRequestDefaults": true,
}

func isModuleFn(fn *ssa.Function) bool {
	return fn.Pkg != nil && strings.HasPrefix(fn.Pkg.Pkg.Path(), modPath)
}

func (m *Machine) siteName(f *Frame, callee string) string {
	// nth occurrence of callee among the calls of f.Fn, in block order
	n := 0
	cur := f.Block.Instrs[f.Idx-1]
	for _, b := range f.Fn.Blocks {
		for _, ins := range b.Instrs {
			name := ""
			switch c := ins.(type) {
			case *ssa.Call:
				name = calleeShort(&c.Call)
			case *ssa.BinOp:
				name = c.Op.String()
			}
			if name == callee {
				n++
			}
			if ins == cur {
				return fmt.Sprintf("%s/%s#%d", FuncName(f.Fn), callee, n)
			}
		}
	}
	return fmt.Sprintf("%s/%s", FuncName(f.Fn), callee)
}

func calleeShort(cc *ssa.CallCommon) string {
	if cc.IsInvoke() {
		return cc.Method.Name()
	}
	if fn := cc.StaticCallee(); fn != nil {
		return fn.Name()
	}
	if b, ok := cc.Value.(*ssa.Builtin); ok {
		return b.Name()
	}
	return "closure"
}

// safeSite records a site that panics unless cond holds: an obligation for the sweep (when the function
// under verification is swept) and an assumption for the continuing path.
func (m *Machine) safeSite(kind string, cond *Term, msg string) {
	if cond.S == "true" {
		return
	}
	if m.Top != nil && m.Top.C != nil && len(m.Top.C.Sweep) > 0 && len(m.Frames) > 0 {
		f := m.top()
		callee := kind
		if f.Idx > 0 {
			switch c := f.Block.Instrs[f.Idx-1].(type) {
			case *ssa.Call:
				callee = calleeShort(&c.Call)
			case *ssa.BinOp:
				callee = c.Op.String()
			}
		}
		site := m.siteName(f, callee)
		m.E.addObl(m, &Obligation{
			Name: fmt.Sprintf("%s:safe:%s@%s", m.Top.Name, kind, site), Func: m.Top.Name, Kind: "safe",
			Props: m.Top.C.Sweep, Reading: ReadU, Goal: cond, Src: msg,
		})
	}
	m.AssumeT(cond)
}

func (E *Engine) addObl(m *Machine, o *Obligation) {
	if E.probing > 0 {
		return
	}
	o.Hyps = append([]*Term{}, m.PC...)
	o.Path = strings.Join(m.Trace, " ")
	o.Z3Ext = m.Z3Ext
	E.Obls = append(E.Obls, o)
}

func (E *Engine) call(m *Machine, f *Frame, x *ssa.Call, work *[]*Machine, onEnd func(pathEnd)) bool {
	cc := &x.Call
	// builtins
	if b, ok := cc.Value.(*ssa.Builtin); ok {
		switch b.Name() {
		case "len":
			f.Env[x] = m.lenOf(m.val(f, cc.Args[0]))
		case "cap":
			f.Env[x] = m.lenOf(m.val(f, cc.Args[0]))
		case "append":
			f.Env[x] = m.appendOp(f, x)
		case "copy":
			panic(unsupported("copy()"))
		default:
			panic(unsupported("builtin " + b.Name()))
		}
		return false
	}
	args := make([]Val, len(cc.Args))
	for i, a := range cc.Args {
		args[i] = m.val(f, a)
	}
	E.applyAsserts(m, f, cc)
	if cc.IsInvoke() {
		recv := m.val(f, cc.Value)
		f.Env[x] = E.invoke(m, f, cc, recv, args)
		E.applyHints(m, f, cc)
		return false
	}
	if fn := cc.StaticCallee(); fn != nil {
		var bind []Val
		if mc, ok := cc.Value.(*ssa.MakeClosure); ok {
			for _, b := range mc.Bindings {
				bind = append(bind, m.val(f, b))
			}
		}
		return E.callFn(m, f, x, fn, bind, args, work, onEnd)
	}
	// dynamic call of a function value
	cv := m.val(f, cc.Value)
	switch c := cv.(type) {
	case *ClosureV:
		return E.callFn(m, f, x, c.Fn, c.Bind, args, work, onEnd)
	}
	panic(unsupported(fmt.Sprintf("dynamic call of %T in %s", cv, f.Fn.Name())))
}

func (E *Engine) callFn(m *Machine, f *Frame, x *ssa.Call, fn *ssa.Function, bind []Val, args []Val, work *[]*Machine, onEnd func(pathEnd)) bool {
	full := fn.String()
	if md, ok := models[full]; ok {
		f.Env[x] = md(m, f, &x.Call, args)
		return false
	}
	if strings.HasPrefix(full, "golang.org/x/exp/slices.IndexFunc[") || strings.HasPrefix(full, "slices.IndexFunc[") {
		// slices.IndexFunc(s, pred): some index of s, or -1; which one is not modelled (enough for bounds and panic-freedom)
		E.Assume("A-INDEXFUNC", "slices.IndexFunc(s, pred) returns -1 or an index inside s; the predicate is not interpreted")
		idx := E.D.Fresh("indexfunc", SInt)
		m.AssumeT(And(Ge(idx, IntLit(-1)), Lt(idx, m.lenOf(args[0]))))
		f.Env[x] = idx
		return false
	}
	if isModuleFn(fn) {
		if v, ok := E.keyBuilderCall(m, fn, args); ok {
			f.Env[x] = v
			return false
		}
	}
	if isModuleFn(fn) || fn.Parent() != nil && isModuleFn(fn.Parent()) {
		name := FuncName(fn)
		if c := E.Specs.Contracts[name]; c != nil && c.Modular && !(m.Top != nil && m.Top.Name == name && len(m.Frames) == 0) {
			f.Env[x] = E.applyContract(m, f, x, fn, c, args)
			return false
		}
		if c := E.Specs.Contracts[name]; c != nil && !c.Modular && !c.Trusted {
			E.checkDemands(m, f, fn, c, args)
		}
		if fn.Blocks == nil {
			panic(unsupported("module function without body: " + full))
		}
		if len(m.Frames) > 40 {
			panic(unsupported("inlining depth exceeded at " + full))
		}
		nf := &Frame{Fn: fn, Env: map[ssa.Value]Val{}, Block: fn.Blocks[0], Call: x, Bind: bind, Loops: map[int]*LoopCtx{}}
		for i, p := range fn.Params {
			nf.Env[p] = args[i]
		}
		nf.Key = FuncName(fn)
		m.Frames = append(m.Frames, nf)
		return false
	}
	if inlinedDeps[full] && fn.Blocks != nil {
		// the dependency's own source (as loaded from the module cache that the build links) is executed like module code
		E.Assume("A-SDK-INLINE", "the bodies of cosmos-sdk types/query.Paginate, getIterator and initPageRequestDefaults are executed from the dependency source in the module cache (the version go.mod pins), under the same store/iterator models as module code")
		nf := &Frame{Fn: fn, Env: map[ssa.Value]Val{}, Block: fn.Blocks[0], Call: x, Bind: bind, Loops: map[int]*LoopCtx{}}
		for i, p := range fn.Params {
			nf.Env[p] = args[i]
		}
		nf.Key = FuncName(fn)
		m.Frames = append(m.Frames, nf)
		return false
	}
	panic(unsupported("no model for dependency function " + full + " (called from " + f.Fn.Name() + ")"))
}

func (E *Engine) invoke(m *Machine, f *Frame, cc *ssa.CallCommon, recv Val, args []Val) Val {
	meth := cc.Method.Name()
	var keys []string
	switch r := recv.(type) {
	case *OpaqueV:
		keys = append(keys, r.Tag+"."+meth)
	case *IterV:
		return m.iterMethod(r, meth, args)
	case *IfaceV:
		if r.V != nil {
			if o, ok := r.V.(*OpaqueV); ok {
				keys = append(keys, o.Tag+"."+meth)
			}
		}
	}
	it := typeKey(cc.Value.Type())
	keys = append(keys, it+"."+meth)
	for _, k := range keys {
		if md, ok := invokeModels[k]; ok {
			return md(m, f, cc, append([]Val{recv}, args...))
		}
	}
	panic(unsupported(fmt.Sprintf("no model for interface call %v (in %s)", keys, f.Fn.Name())))
}

// resultShape builds the result value of a call from per-result values
func tupleOf(vs ...Val) Val {
	if len(vs) == 1 {
		return vs[0]
	}
	return &TupleV{Vs: vs}
}

func sigResults(fn *ssa.Function) []types.Type {
	var out []types.Type
	r := fn.Signature.Results()
	for i := 0; i < r.Len(); i++ {
		out = append(out, r.At(i).Type())
	}
	return out
}

// applyHints assumes the lemma-instance hints registered for the call site just executed. Hints may only be
// conjunctions of use_* terms (tautologies by the hint axiom); they exist to name lemma witnesses.
func (E *Engine) applyHints(m *Machine, f *Frame, cc *ssa.CallCommon) {
	if m.Top == nil || m.Top.C == nil || len(m.Top.C.Hints) == 0 {
		return
	}
	site := m.siteName(f, calleeShort(cc))
	for _, h := range m.Top.C.Hints {
		if h.Site != site {
			continue
		}
		ev := &Evaluator{E: E, M: m, Frame: f, Old: m.Entry, Lets: m.Top.Lets}
		t := ev.EvalBool(h.Expr, h.Src)
		for _, part := range splitSexp(strings.TrimSuffix(strings.TrimPrefix(t.S, "(and "), ")")) {
			if !strings.HasPrefix(part, "(hint ") && !strings.HasPrefix(t.S, "(hint ") {
				panic(specErr{"hint at " + site + " is not a conjunction of use_* terms"})
			}
		}
		m.AssumeT(t)
	}
}

// applyAsserts emits the site assertions of the function under verification that are registered for the call about to execute.
func (E *Engine) applyAsserts(m *Machine, f *Frame, cc *ssa.CallCommon) {
	if m.Top == nil || m.Top.C == nil || len(m.Top.C.Asserts) == 0 {
		return
	}
	site := m.siteName(f, calleeShort(cc))
	for _, a := range m.Top.C.Asserts {
		if a.Site != site {
			continue
		}
		ev := &Evaluator{E: E, M: m, Frame: f, Old: m.Entry, Lets: m.Top.Lets}
		g := ev.EvalBool(a.Cl.Expr, a.Cl.Src)
		props := a.Cl.Props
		if len(props) == 0 {
			props = allProps(m.Top.C)
		}
		E.addObl(m, &Obligation{Name: fmt.Sprintf("%s:assert@%s:%s", m.Top.Name, site, a.Cl.Label), Func: m.Top.Name, Kind: "assert",
			Props: props, Reading: a.Cl.Reading, Goal: g, Src: a.Cl.Src})
		// the assertion is only checked, not assumed afterwards: nothing downstream may come to depend on it, and a disjunctive
		// assertion would otherwise burden every later proof on the path
	}
}
