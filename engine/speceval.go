package main

import (
	"fmt"
	"go/ast"
	"go/types"
	"math/big"
	"strings"

	"golang.org/x/tools/go/ssa"
)

// Evaluator evaluates contract expressions to symbolic values in a machine state.
type Evaluator struct {
	E       *Engine
	M       *Machine // state in which names and views are read
	Frame   *Frame   // innermost frame for name resolution (nil: only Names)
	Names   map[string]Val
	Lets    map[string]Val
	Bound   map[string]*Term
	Old     *Snapshot // state for old(...)
	Loop    *LoopCtx
	inOld   bool
	Results []Val
	LiveM   *Machine
}

type specErr struct{ msg string }

func (ev *Evaluator) fail(f string, a ...interface{}) { panic(specErr{fmt.Sprintf(f, a...)}) }

func (ev *Evaluator) EvalBool(e *Expr, src string) *Term {
	// contract expressions read nested proto []*T fields by value (no fresh heap regions under quantifiers)
	if ev.M != nil {
		saved := ev.M.SpecView
		ev.M.SpecView = true
		defer func(m *Machine) { m.SpecView = saved }(ev.M)
	}
	v := ev.Eval(e)
	t, ok := v.(*Term)
	if !ok || t.Sort != SBool {
		ev.fail("clause %q is not boolean (%s)", src, describe(v))
	}
	return t
}

// specSort resolves a sort name of the contract language, including "Map<K,V>" nestings.
func specSort(name string) (Sort, bool) {
	name = strings.TrimSpace(name)
	if s, ok := sortNames[name]; ok {
		return s, true
	}
	if strings.HasPrefix(name, "Map<") && strings.HasSuffix(name, ">") {
		inner := name[4 : len(name)-1]
		depth := 0
		for i, c := range inner {
			switch c {
			case '<':
				depth++
			case '>':
				depth--
			case ',':
				if depth == 0 {
					k, ok1 := specSort(inner[:i])
					v, ok2 := specSort(inner[i+1:])
					return ArrSort(k, v), ok1 && ok2
				}
			}
		}
	}
	return "", false
}

func elemSortOf(s Sort) Sort {
	str := string(s)
	if !strings.HasPrefix(str, "(Array ") {
		return ""
	}
	// (Array K V): V is the last balanced component
	body := str[len("(Array ") : len(str)-1]
	depth := 0
	for i, c := range body {
		switch c {
		case '(':
			depth++
		case ')':
			depth--
		case ' ':
			if depth == 0 {
				return Sort(body[i+1:])
			}
		}
	}
	return ""
}

var sortNames = map[string]Sort{"Int": SInt, "Bool": SBool, "Str": SStr, "Bytes": SBytes, "Dec": SDec, "Time": SInt, "Addr": SBytes, "Denom": SStr}

func (ev *Evaluator) Eval(e *Expr) Val {
	switch e.Op {
	case "num":
		s := e.Name
		if strings.HasSuffix(s, "d") || strings.Contains(s, ".") {
			s = strings.TrimSuffix(s, "d")
			return parseDecLit(s)
		}
		n, _ := new(big.Int).SetString(s, 10)
		return BigLit(n)
	case "str":
		return ev.E.D.StrLit(e.Name)
	case "id":
		return ev.lookup(e.Name)
	case "un":
		x := ev.term(ev.Eval(e.Args[0]))
		if e.Name == "!" {
			return Not(x)
		}
		return Neg(x)
	case "bin":
		return ev.bin(e)
	case "quant":
		saved := ev.Bound
		nb := map[string]*Term{}
		for k, v := range saved {
			nb[k] = v
		}
		var decl []string
		for i, v := range e.Vars {
			s, ok := sortNames[e.Sorts[i]]
			if !ok {
				ev.fail("unknown sort %s", e.Sorts[i])
			}
			vn := "q_" + v
			nb[v] = T(s, vn)
			decl = append(decl, fmt.Sprintf("(%s %s)", vn, s))
		}
		ev.Bound = nb
		body := ev.term(ev.Eval(e.Args[0]))
		ev.Bound = saved
		return T(SBool, fmt.Sprintf("(%s (%s) %s)", e.Name, strings.Join(decl, " "), body.S))
	case "field":
		return ev.field(ev.Eval(e.Args[0]), e.Name)
	case "index":
		return ev.index(ev.Eval(e.Args[0]), ev.Eval(e.Args[1]))
	case "call":
		return ev.call(e)
	}
	ev.fail("cannot evaluate %s", e.Op)
	return nil
}

func parseDecLit(s string) *Term {
	ip, fp := s, ""
	if i := strings.Index(s, "."); i >= 0 {
		ip, fp = s[:i], s[i+1:]
	}
	for len(fp) < 18 {
		fp += "0"
	}
	n, _ := new(big.Int).SetString(ip+fp[:18], 10)
	return DecRaw(n)
}

func (ev *Evaluator) term(v Val) *Term {
	t, ok := v.(*Term)
	if !ok {
		ev.fail("expected a scalar, got %s", describe(v))
	}
	return t
}

func (ev *Evaluator) machine() *Machine { return ev.M }

func (ev *Evaluator) bin(e *Expr) Val {
	if e.Name == "==>" {
		a := ev.term(ev.Eval(e.Args[0]))
		if a.S == "false" {
			return True
		}
		return Implies(a, ev.term(ev.Eval(e.Args[1])))
	}
	a := ev.Eval(e.Args[0])
	b := ev.Eval(e.Args[1])
	switch e.Name {
	case "==":
		return ev.M.specEq(a, b)
	case "!=":
		return Not(ev.M.specEq(a, b))
	}
	x, y := ev.term(a), ev.term(b)
	// integer literal against Dec: promote
	if x.Sort == SDec && y.Sort == SInt {
		if n, ok := isIntLit(y); ok {
			y = DecRaw(new(big.Int).Mul(n, pow10(18)))
		}
	}
	if y.Sort == SDec && x.Sort == SInt {
		if n, ok := isIntLit(x); ok {
			x = DecRaw(new(big.Int).Mul(n, pow10(18)))
		}
	}
	switch e.Name {
	case "&&":
		return And(x, y)
	case "||":
		return Or(x, y)
	case "<=>":
		return Eq(x, y)
	case "<":
		return Lt(x, y)
	case "<=":
		return Le(x, y)
	case ">":
		return Gt(x, y)
	case ">=":
		return Ge(x, y)
	case "+":
		return Add(x, y)
	case "-":
		return Sub(x, y)
	case "*":
		if x.Sort == SDec || y.Sort == SDec {
			ev.fail("use dmul/dmulint for decimal multiplication")
		}
		return Mul(x, y)
	case "/":
		return App(SInt, "tdiv", x, y)
	case "%":
		return App(SInt, "tmod", x, y)
	}
	ev.fail("operator %s", e.Name)
	return nil
}

func (m *Machine) specEq(a, b Val) *Term {
	if va, ok := a.(*ViewV); ok {
		a = va.Decoded(m)
	}
	if vb, ok := b.(*ViewV); ok {
		b = vb.Decoded(m)
	}
	switch x := a.(type) {
	case *Term:
		y, ok := b.(*Term)
		if !ok {
			break
		}
		if x.Sort == SDec && y.Sort == SInt {
			if n, ok := isIntLit(y); ok {
				y = DecRaw(new(big.Int).Mul(n, pow10(18)))
			}
		}
		if y.Sort == SDec && x.Sort == SInt {
			if n, ok := isIntLit(x); ok {
				x = DecRaw(new(big.Int).Mul(n, pow10(18)))
			}
		}
		return Eq(x, y)
	case *StructV:
		y, ok := b.(*StructV)
		if !ok || len(x.F) != len(y.F) {
			break
		}
		var cs []*Term
		for i := range x.F {
			cs = append(cs, m.specEq(x.F[i], y.F[i]))
		}
		return And(cs...)
	case *CoinsV:
		y, ok := b.(*CoinsV)
		if ok {
			return Eq(x.M, y.M)
		}
	case *SymPtrV:
		if y, ok := b.(*SymPtrV); ok && len(x.Path) == 0 && len(y.Path) == 0 {
			return Eq(x.P, y.P)
		}
	case *PtrV, *NilV:
		return m.eqVal(a, b)
	case *SeqV:
		y, ok := b.(*SeqV)
		if ok {
			xs, ys := m.asSeq(x, x.Elem), m.asSeq(y, y.Elem)
			cs := []*Term{Eq(xs.Len, ys.Len)}
			for i := range xs.Leaves {
				cs = append(cs, T(SBool, fmt.Sprintf("(forall ((i Int)) (=> (and (<= 0 i) (< i %s)) (= (select %s i) (select %s i))))", xs.Len.S, xs.Leaves[i].S, ys.Leaves[i].S)))
			}
			return And(cs...)
		}
	}
	panic(specErr{fmt.Sprintf("cannot compare %s with %s", describe(a), describe(b))})
}

func (ev *Evaluator) field(v Val, name string) Val {
	m := ev.M
	// auto-deref
	for {
		switch p := v.(type) {
		case *PtrV, *SymPtrV:
			v = m.Load(p)
			continue
		}
		break
	}
	switch x := v.(type) {
	case *StructV:
		st := x.Typ.Underlying().(*types.Struct)
		for i := 0; i < st.NumFields(); i++ {
			if st.Field(i).Name() == name {
				return x.F[i]
			}
		}
		// promoted fields through embedded pointers/structs
		for i := 0; i < st.NumFields(); i++ {
			if st.Field(i).Embedded() {
				if r := ev.tryField(x.F[i], name); r != nil {
					return r
				}
			}
		}
		ev.fail("no field %s in %s", name, typeKey(x.Typ))
	case *IterV:
		st := m.Heap[x.Cell].(*IterState)
		switch name {
		case "pos":
			return st.Pos
		case "n":
			return st.N
		case "keys":
			return st.Keys
		case "snap":
			return st.Snap
		}
	case *ViewV:
		switch name {
		case "present":
			return Neq(x.Bytes, bnil())
		case "bytes":
			return x.Bytes
		}
		return ev.field(x.Decoded(m), name)
	case *CoinsV:
		if name == "len" {
			return m.coinsLen(x)
		}
	case *SeqV:
		if name == "len" {
			return x.Len
		}
	}
	ev.fail("field %s of %s", name, describe(v))
	return nil
}

func (ev *Evaluator) tryField(v Val, name string) (r Val) {
	defer func() {
		if e := recover(); e != nil {
			if _, ok := e.(specErr); ok {
				r = nil
				return
			}
			panic(e)
		}
	}()
	if _, isNil := v.(*NilV); isNil {
		return nil
	}
	return ev.field(v, name)
}

// ViewV is a typed view of a store cell: bytes plus lazily decoded value.
type ViewV struct {
	Typ   types.Type
	Bytes *Term
}

func (v *ViewV) Decoded(m *Machine) Val {
	saved := m.SpecView
	m.SpecView = true
	defer func() { m.SpecView = saved }()
	return m.decode(v.Typ, v.Bytes)
}

func (ev *Evaluator) index(a, i Val) Val {
	m := ev.M
	switch x := a.(type) {
	case *Term:
		if strings.HasPrefix(string(x.Sort), "(Array ") {
			return Select(x, ev.term(i))
		}
	case *CoinsV:
		it := ev.term(i)
		if it.Sort == SStr {
			return Select(x.M, it)
		}
		return m.coinsElem(x, it)
	case *SeqV:
		return m.seqElem(x, ev.term(i))
	}
	ev.fail("cannot index %s", describe(a))
	return nil
}

func (ev *Evaluator) namedType(name string) types.Type {
	for _, path := range []string{modPath + "/x/alliance/types"} {
		if sp := ev.E.P.SSA[path]; sp != nil {
			if t := sp.Type(name); t != nil {
				return t.Type()
			}
		}
	}
	ev.fail("unknown type %s", name)
	return nil
}

func (ev *Evaluator) view(typeName string, key *Term) *ViewV {
	ev.E.declKeys()
	return &ViewV{Typ: ev.namedType(typeName), Bytes: Select(ev.M.S(), key)}
}

var smtFunRet = map[string]Sort{
	"dmul": SDec, "dquo": SDec, "dmulint": SDec, "dquoint": SDec, "dofint": SDec, "dtrunc": SInt, "dtruncdec": SDec, "dabs": SDec,
	"dpow": SDec, "dround": SInt, "dmultrunc": SDec, "dceil": SDec, "tdiv": SInt, "tmod": SInt, "imin": SInt, "imax": SInt, "iabs": SInt,
	"ktag": SInt, "pfx": SBool, "krange": SBool, "sfx": SBool, "klt": SBool,
	"acc_str": SStr, "val_str": SStr, "acc_of": SBytes, "val_of": SBytes, "acc_ok": SBool, "val_ok": SBool,
	"modaddr": SBytes, "blocked": SBool, "denom_ok": SBool, "ismod": SBool,
	"spendable": SBool, "numstr": SStr, "decstr": SStr, "urlunesc": SStr, "urlunesc_ok": SBool,
	"stk_exists": SBool, "stk_status": SInt, "stk_tokens": SInt, "stk_dshares": SDec, "stk_jailed": SBool,
	"stk_hasdel": SBool, "stk_delshares": SDec, "stk_total_bonded": SInt, "stk_bonded_of": SInt,
}

func (ev *Evaluator) call(e *Expr) Val {
	m := ev.M
	E := ev.E
	args := func() []Val {
		var out []Val
		for _, a := range e.Args {
			out = append(out, ev.Eval(a))
		}
		return out
	}
	targs := func() []*Term {
		var out []*Term
		for _, a := range e.Args {
			out = append(out, ev.term(ev.Eval(a)))
		}
		return out
	}
	switch e.Name {
	case "old":
		if ev.Old == nil {
			ev.fail("old() used where no entry state is available")
		}
		saved := ev.M
		tm := &Machine{E: E, Heap: ev.Old.Heap, G: ev.Old.G, Top: saved.Top, Entry: ev.Old}
		if ev.LiveM == nil {
			ev.LiveM = saved
			defer func() { ev.LiveM = nil }()
		}
		ev.M = tm
		v := ev.Eval(e.Args[0])
		ev.M = saved
		for _, a := range tm.PC {
			saved.AssumeT(a)
		}
		return v
	case "atentry":
		// state at loop entry (before the first iteration)
		if ev.Loop == nil || ev.Loop.EntryG == nil {
			ev.fail("atentry() outside a loop invariant")
		}
		saved := ev.M
		tm := &Machine{E: E, Heap: ev.Loop.EntryHeap, G: ev.Loop.EntryG, Top: saved.Top}
		if ev.LiveM == nil {
			ev.LiveM = saved
			defer func() { ev.LiveM = nil }()
		}
		ev.M = tm
		v := ev.Eval(e.Args[0])
		ev.M = saved
		for _, a := range tm.PC {
			saved.AssumeT(a)
		}
		return v
	case "ite":
		a := args()
		c := ev.term(a[0])
		x, y := ev.term(a[1]), ev.term(a[2])
		return Ite(c, x, y)
	case "dec":
		t := targs()[0]
		return decOp("dofint", t)
	case "tsub":
		// time.Time.Sub: saturating difference
		t := targs()
		d := Sub(t[0], t[1])
		maxd := T(SInt, "9223372036854775807")
		mind := T(SInt, "(- 9223372036854775808)")
		return Ite(Gt(d, maxd), maxd, Ite(Lt(d, mind), mind, d))
	case "u64":
		t := targs()[0]
		return Ite(Ge(t, IntLit(0)), t, Add(t, T(SInt, "18446744073709551616")))
	case "now":
		E.D.Const("now", SInt)
		return nowTerm()
	case "height":
		E.D.Const("height", SInt)
		return T(SInt, "height")
	case "tzero":
		E.D.Declare("tzero", "(define-fun tzero () Int (- 62135596800000000000))")
		return tzero()
	case "nil":
		return bnil()
	case "isnil":
		return m.isNilTerm(args()[0])
	case "len":
		return m.lenOf(args()[0])
	case "amt":
		a := args()
		return Select(m.asCoins(a[0]).M, ev.term(a[1]))
	case "pos":
		// position of a denom in a valid coin list
		a := args()
		c := m.asCoins(a[0])
		E.declCoinFuns(c.Dec)
		_, _, sfx := coinSorts(c.Dec)
		return App(SInt, "cidx"+sfx, c.M, ev.term(a[1]))
	case "S":
		E.declKeys()
		return Select(m.S(), targs()[0])
	case "has":
		E.declKeys()
		return Neq(Select(m.S(), targs()[0]), bnil())
	case "bank":
		t := targs()
		return m.bankSelect(t[0], t[1])
	case "pend":
		// pend(val, denom): rewards pending in x/distribution for the module's delegation to val
		t := targs()
		return Select(Select(m.GetG("pend", ArrSort(SBytes, ArrSort(SStr, SInt))), t[0]), t[1])
	case "sel":
		// sel(array, index)
		t := targs()
		es := elemSortOf(t[0].Sort)
		if es == "" {
			ev.fail("sel: %s is not an array", t[0].Sort)
		}
		return Select(t[0], t[1])
	case "absfun":
		// absfun("name", "ResultSort", args...): an uninterpreted function of the representation of its arguments
		// (sequences contribute their length and per-leaf arrays). Only what assumed/trusted clauses say about it is known.
		if len(e.Args) < 2 || e.Args[0].Op != "str" || e.Args[1].Op != "str" {
			ev.fail("absfun(\"name\", \"Sort\", args...)")
		}
		rs, ok := specSort(e.Args[1].Name)
		if !ok {
			ev.fail("absfun: unknown sort %s", e.Args[1].Name)
		}
		var ts []*Term
		var sorts []Sort
		for _, a := range e.Args[2:] {
			switch x := ev.Eval(a).(type) {
			case *SeqV:
				xs := m.asSeq(x, x.Elem)
				ts = append(ts, xs.Len)
				ts = append(ts, xs.Leaves...)
			case *ViewV:
				ev.fail("absfun: pass a field of the view, not the view")
			default:
				ts = append(ts, ev.term(x))
			}
		}
		for _, t := range ts {
			sorts = append(sorts, t.Sort)
		}
		fn := "abs_" + sanitize(e.Args[0].Name)
		E.D.Fun(fn, sorts, rs)
		return App(rs, fn, ts...)
	case "supply":
		return Select(m.Supply(), targs()[0])
	case "mod":
		return E.moduleAddr(targs()[0])
	case "asset":
		return ev.view("AllianceAsset", App(SBytes, "kAsset", targs()...))
	case "valinfo":
		return ev.view("AllianceValidatorInfo", App(SBytes, "kValInfo", targs()...))
	case "delegation":
		return ev.view("Delegation", App(SBytes, "kDel", targs()...))
	case "redelegation":
		return ev.view("Redelegation", App(SBytes, "kRedel", targs()...))
	case "undelq":
		return ev.view("QueuedUndelegation", App(SBytes, "kUndelQ", targs()...))
	case "redelq":
		return ev.view("QueuedRedelegation", App(SBytes, "kRedelQ", targs()...))
	case "snapshot":
		return ev.view("RewardWeightChangeSnapshot", App(SBytes, "kSnap", targs()...))
	case "params":
		E.declKeys()
		return ev.view("Params", T(SBytes, "g_ParamsKey"))
	case "flag":
		E.declKeys()
		return Neq(Select(m.S(), T(SBytes, "g_AssetRebalanceQueueKey")), bnil())
	case "decode":
		// decode("Type", bytes)
		if len(e.Args) != 2 || e.Args[0].Op != "str" {
			ev.fail("decode(\"Type\", bytes)")
		}
		return &ViewV{Typ: ev.namedType(e.Args[0].Name), Bytes: ev.term(ev.Eval(e.Args[1]))}
	case "G":
		// raw state component by name
		if len(e.Args) != 1 || e.Args[0].Op != "str" {
			ev.fail("G(\"name\")")
		}
		t, ok := m.G[e.Args[0].Name]
		if !ok {
			gs, known := ghostSorts[e.Args[0].Name]
			if !known {
				ev.fail("no state component %s", e.Args[0].Name)
			}
			t = m.GetG(e.Args[0].Name, gs)
		}
		return t
	case "json":
		// json("Type", leaf values...): the JSON encoding function of a response struct
		if len(e.Args) < 1 || e.Args[0].Op != "str" {
			ev.fail("json(\"Type\", fields...)")
		}
		var ts []*Term
		var sorts []Sort
		for _, a := range e.Args[1:] {
			t := ev.term(ev.Eval(a))
			ts = append(ts, t)
			sorts = append(sorts, t.Sort)
		}
		fn := "json_" + sanitize(e.Args[0].Name)
		E.D.Fun(fn, sorts, SBytes)
		return App(SBytes, fn, ts...)
	case "arr":
		// arr(seq, "Leaf.Path"): the per-leaf array of a by-value sequence (contract views)
		if len(e.Args) != 2 || e.Args[1].Op != "str" {
			ev.fail("arr(seq, \"leaf\")")
		}
		sq, ok := ev.Eval(e.Args[0]).(*SeqV)
		if !ok || sq.Leaves == nil {
			ev.fail("arr: not a symbolic sequence")
		}
		for i, l := range seqLeaves(sq.Elem) {
			if l.Path == e.Args[1].Name {
				return sq.Leaves[i]
			}
		}
		ev.fail("arr: no leaf %s", e.Args[1].Name)
		return nil
	case "harr":
		// harr(ptrseq, "Leaf.Path"): current values of a leaf of the pointees of a []*T, as an array
		if len(e.Args) != 2 || e.Args[1].Op != "str" {
			ev.fail("harr(seq, \"leaf\")")
		}
		sq, ok := ev.Eval(e.Args[0]).(*SeqV)
		if !ok {
			ev.fail("harr: not a sequence")
		}
		pt, isPtr := sq.Elem.Underlying().(*types.Pointer)
		if !isPtr {
			ev.fail("harr: elements are not pointers")
		}
		if sq.Leaves == nil {
			sq = m.concToSym(sq)
		}
		for _, l := range leavesOf(pt.Elem()) {
			if l.Path == e.Args[1].Name {
				h := m.heapArr(pt.Elem(), l)
				a := E.D.Fresh("harr_"+l.Path, ArrSort(SInt, l.Sort))
				m.AssumeT(T(SBool, fmt.Sprintf("(forall ((i Int)) (! (=> (and (<= 0 i) (< i %s)) (= (select %s i) (select %s (select %s i)))) :pattern ((select %s i))))",
					sq.Len.S, a.S, h.S, sq.Leaves[0].S, a.S)))
				return a
			}
		}
		ev.fail("harr: no leaf %s", e.Args[1].Name)
		return nil
	case "result":
		n, _ := isIntLit(ev.term(ev.Eval(e.Args[0])))
		return ev.Results[n.Int64()]
	case "deref":
		// tolerant of a refactor that turns the pointer into a value (a local copy): deref of a struct value is the value
		if sv, ok := args()[0].(*StructV); ok {
			return sv
		}
		return m.Load(args()[0])
	}
	// key constructors and projections
	for _, kc := range keyFamilies {
		if e.Name == kc.Cons {
			E.declKeys()
			return App(SBytes, kc.Cons, targs()...)
		}
		if strings.HasPrefix(e.Name, kc.Cons+"_") {
			E.declKeys()
			var i int
			fmt.Sscanf(e.Name[len(kc.Cons)+1:], "%d", &i)
			if i >= 1 && i <= len(kc.Args) {
				return App(kc.Args[i-1], e.Name, targs()...)
			}
		}
	}
	if pd, ok := E.Specs.Pures[e.Name]; ok {
		a := args()
		if len(a) != len(pd.Params) {
			ev.fail("pure %s expects %d arguments", e.Name, len(pd.Params))
		}
		// pure functions are closed terms over their parameters: outer quantifier variables must not shadow them
		sub := &Evaluator{E: E, M: ev.M, Names: map[string]Val{}, Old: ev.Old, Loop: ev.Loop, Results: ev.Results, Frame: nil, LiveM: ev.LiveM}
		for i, p := range pd.Params {
			sub.Names[p] = a[i]
		}
		return sub.Eval(pd.Body)
	}
	if s, ok := smtFunRet[e.Name]; ok {
		switch e.Name {
		case "acc_str", "val_str", "acc_of", "val_of", "acc_ok", "val_ok":
			models[pkgSdk+".AccAddressFromBech32"](m, nil, nil, []Val{E.D.StrLit("")})
		case "ktag", "pfx", "krange", "sfx", "klt":
			E.declKeys()
		case "modaddr", "ismod":
			E.moduleAddr(E.D.StrLit("alliance"))
		case "blocked":
			E.D.Fun("blocked", []Sort{SBytes}, SBool)
		case "denom_ok":
			E.D.Fun("denom_ok", []Sort{SStr}, SBool)
		}
		if strings.HasPrefix(e.Name, "stk_") {
			E.declStaking()
		}
		switch e.Name {
		case "spendable":
			E.declSpendable()
		case "numstr":
			E.D.Fun("numstr", []Sort{SInt}, SStr)
		case "decstr":
			E.D.Fun("decstr", []Sort{SDec}, SStr)
		case "urlunesc":
			E.D.Fun("urlunesc", []Sort{SStr}, SStr)
		case "urlunesc_ok":
			E.D.Fun("urlunesc_ok", []Sort{SStr}, SBool)
		}
		return App(s, e.Name, targs()...)
	}
	if gs, ok := ghostFuns[e.Name]; ok {
		return gs(ev, targs())
	}
	// any function declared so far by the models (e.g. json_<Type>): result sort from its declaration
	E.D.mu.Lock()
	decl, declared := E.D.seen[e.Name]
	E.D.mu.Unlock()
	if declared && strings.HasPrefix(decl, "(declare-fun ") {
		parts := splitSexp(decl[1 : len(decl)-1])
		if len(parts) == 4 {
			return App(Sort(parts[3]), e.Name, targs()...)
		}
	}
	ev.fail("unknown function %s", e.Name)
	return nil
}

func (ev *Evaluator) lookup(name string) Val {
	if t, ok := ev.Bound[name]; ok {
		return t
	}
	if v, ok := ev.Lets[name]; ok {
		return v
	}
	if v, ok := ev.Names[name]; ok {
		return v
	}
	switch name {
	case "S":
		ev.E.declKeys()
		return ev.M.S()
	case "bankmap":
		return ev.M.Bank()
	case "supplymap":
		return ev.M.Supply()
	case "true":
		return True
	case "false":
		return False
	case "bnil":
		return bnil()
	case "bondDenom":
		return ev.E.bondDenom()
	case "feeCollector":
		return ev.E.D.Const("k_feeCollectorName", SStr)
	case "authority":
		return ev.E.D.Const("k_authorityAddr", SStr)
	case "unbondingTime":
		ev.E.declStaking()
		return T(SInt, "stk_unbonding_time")
	case "stk":
		ev.E.declStaking()
		return ev.M.stk()
	case "maxUint64":
		return T(SInt, "18446744073709551615")
	}
	if ev.M != nil && ev.M.Locals != nil {
		if v, ok := ev.M.Locals[name]; ok {
			return v
		}
	}
	// program variables: innermost frame first
	if ev.Frame != nil {
		frames := ev.framesFor()
		for i := len(frames) - 1; i >= 0; i-- {
			if v, ok := ev.frameVar(frames[i], name); ok {
				return v
			}
		}
	}
	if ev.M != nil && ev.M.Top != nil {
		for i, n := range ev.M.Top.ArgNames {
			if n == name {
				return ev.M.Top.Args[i]
			}
		}
	}
	if strings.HasPrefix(name, "Err") {
		return ev.E.sentinelErr(name)
	}
	if strings.HasPrefix(name, "g_") {
		ev.E.declKeys()
		return ev.E.D.Const(name, SBytes)
	}
	ev.fail("unknown name %s", name)
	return nil
}

func (ev *Evaluator) framesFor() []*Frame {
	// frames of the live machine up to and including ev.Frame
	var out []*Frame
	for _, f := range ev.liveFrames() {
		out = append(out, f)
		if f == ev.Frame {
			break
		}
	}
	return out
}

func (ev *Evaluator) liveFrames() []*Frame {
	if ev.LiveM != nil {
		return ev.LiveM.Frames
	}
	return ev.M.Frames
}

func (ev *Evaluator) frameVar(f *Frame, name string) (Val, bool) {
	for i, p := range f.Fn.Params {
		if p.Name() == name {
			return f.Env[p], true
		}
		_ = i
	}
	for i, fv := range f.Fn.FreeVars {
		if fv.Name() == name {
			v := f.Bind[i]
			if p, ok := v.(*PtrV); ok {
				return ev.M.Load(p), true
			}
			return v, true
		}
	}
	if name == "outerindex" {
		// the range index of the closest enclosing range loop (by block layout) other than the current one
		best := -1
		var bv Val
		for v, val := range f.Env {
			if x, isPhi := v.(*ssa.Phi); isPhi && x.Comment == "rangeindex" && x.Block() != f.Block && x.Block().Index < f.Block.Index && x.Block().Index > best {
				best, bv = x.Block().Index, val
			}
		}
		if best >= 0 {
			return bv, true
		}
		return nil, false
	}
	// phis of the current loop head and other named values
	var found Val
	ok := false
	for v, val := range f.Env {
		switch x := v.(type) {
		case *ssa.Phi:
			if x.Comment == name {
				// prefer the phi of the block we are in
				if !ok || x.Block() == f.Block {
					found, ok = val, true
				}
			}
		case *ssa.Alloc:
			if x.Comment == name && !ok {
				if p, isP := val.(*PtrV); isP {
					if _, exists := ev.M.Heap[p.Cell]; exists {
						found, ok = ev.M.Load(p), true
					}
				}
			}
		}
	}
	if ok {
		return found, true
	}
	// source-level names of SSA values (DebugRef instructions; the program is built with ssa.GlobalDebug)
	for _, b := range f.Fn.Blocks {
		for _, ins := range b.Instrs {
			dr, isD := ins.(*ssa.DebugRef)
			if !isD {
				continue
			}
			id, isI := dr.Expr.(*ast.Ident)
			if !isI || id.Name != name {
				continue
			}
			val, has := f.Env[dr.X]
			if !has {
				continue
			}
			if dr.IsAddr {
				if p, isP := val.(*PtrV); isP {
					if _, exists := ev.M.Heap[p.Cell]; exists {
						return ev.M.Load(p), true
					}
				}
				continue
			}
			return val, true
		}
	}
	// fallback by SSA name
	for v, val := range f.Env {
		if v.Name() == name {
			return val, true
		}
	}
	return nil, false
}

func (E *Engine) bondDenom() *Term {
	E.Assume("A-STAKING", "x/staking: validator status/tokens/shares and delegations are read from ghost staking state; Delegate/Unbond move tokens as specified in DESIGN.md 5.1; BondStatus Bonded = 3")
	return E.D.Const("bondDenom", SStr)
}
