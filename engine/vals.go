package main

import (
	"fmt"
	"go/types"
	"strings"

	"golang.org/x/tools/go/ssa"
)

// Val is a symbolic value: immutable; leaves are SMT terms.
type Val interface{}

// StructV is a struct value, field by field.
type StructV struct {
	Typ types.Type // named or struct type
	F   []Val
}

// PtrV is a pointer to a Go-side heap cell (allocated by ssa.Alloc, or a symbolic input object).
type PtrV struct {
	Cell int
	Path []int // field path within the cell's value
	Elem types.Type
	Nil  *Term // non-nil: the pointer itself may be nil (an optional input object such as a request's *PageRequest); true = nil
}

// optional input objects: a symbolic pointer to one of these types may be nil
var nullablePointee = map[string]bool{
	"github.com/cosmos/cosmos-sdk/types/query.PageRequest": true,
}

// NilV is the nil value of a pointer, slice, map, func or (non-error) interface type.
type NilV struct{ Typ types.Type }

// SymPtrV is a pointer known only as an SMT integer; its pointee lives in the per-leaf heap arrays.
type SymPtrV struct {
	P    *Term      // Int
	Root types.Type // type of the object P points to
	Path []int      // field path inside the object
	Elem types.Type // type at Path
}

// TupleV is a multi-value result.
type TupleV struct{ Vs []Val }

// OpaqueV stands for values the translation drops (contexts, keepers, stores, event managers...).
type OpaqueV struct {
	Tag string
	Typ types.Type
	X   interface{}
}

// SeqV is a slice of non-coin elements as struct-of-arrays: Leaves[i] is an (Array Int leafSort) for
// the i-th leaf of the element type (pointer elements: a single Int leaf holding the pointer).
type SeqV struct {
	Elem   types.Type
	Len    *Term
	Leaves []*Term
	Conc   []Val // non-nil: a concrete-length slice whose elements are these values (Len is a literal)
	IsNil  *Term // Bool (nil slice); nil means "not nil-tested"
}

// CoinsV models sdk.Coins / sdk.DecCoins / []sdk.Coin / []sdk.DecCoin.
// Sequence view (Len, DenomAt, AmtAt) and map view M (denom -> amount, 0 when absent).
// A valid coin list (sorted, unique denoms, non-zero amounts) is a function of its map view M
// (denom -> amount, 0 when absent): length clen(M), i-th denom cden(M,i), position cidx(M,d).
type CoinsV struct {
	Dec     bool
	M       *Term      // (Array Str Int|Dec)
	Small   []CoinPair // when IsSmall: built from explicitly listed coins with pairwise distinct denoms
	IsSmall bool
	Raw     bool // a literal list that was not sanitised (may hold zero amounts)
}

type CoinPair struct{ Denom, Amt *Term }

// ClosureV is a function value.
type ClosureV struct {
	Fn   *ssa.Function
	Bind []Val
}

// MapV is a Go map used as lookup table: total array plus presence.
type MapV struct {
	Cell int // maps are reference types: the state lives in a cell
}
type MapState struct {
	KeyT, ElemT types.Type
	M           []*Term // per-leaf arrays (Array K leaf)
	Has         *Term   // (Array K Bool)
}

// IterV is a store iterator: a reference to a cell holding *IterState.
type IterV struct{ Cell int }
type IterState struct {
	Snap *Term // store array at creation
	Keys *Term // (Array Int Bytes), ascending, exactly the keys of Snap matching the range
	N    *Term // number of keys
	Pos  *Term // cursor
	Idx  string // name of the ghost index function Bytes -> Int (completeness witness)
	Kind string // description of the range (for messages)
	Match func(k *Term) *Term // membership predicate of the range over keys
	Strip *Term // non-nil: a prefix-store iterator; Key() hands out kstrip(Strip, key)
}

func typeKey(t types.Type) string { return types.TypeString(t, nil) }

func isNamed(t types.Type, full string) bool {
	return typeKey(t) == full
}

const (
	tInt      = "cosmossdk.io/math.Int"
	tDec      = "cosmossdk.io/math.LegacyDec"
	tTime     = "time.Time"
	tCoin     = "github.com/cosmos/cosmos-sdk/types.Coin"
	tDecCoin  = "github.com/cosmos/cosmos-sdk/types.DecCoin"
	tCoins    = "github.com/cosmos/cosmos-sdk/types.Coins"
	tDecCoins = "github.com/cosmos/cosmos-sdk/types.DecCoins"
	tSdkCtx   = "github.com/cosmos/cosmos-sdk/types.Context"
	tCtx      = "context.Context"
)

// leafSortOf returns the SMT sort for Go types that are modelled as a single term.
func leafSortOf(t types.Type) (Sort, bool) {
	switch typeKey(t) {
	case tInt:
		return SInt, true
	case tDec:
		return SDec, true
	case tTime:
		return SInt, true
	}
	switch u := t.Underlying().(type) {
	case *types.Basic:
		switch {
		case u.Info()&types.IsBoolean != 0:
			return SBool, true
		case u.Info()&types.IsInteger != 0:
			return SInt, true
		case u.Info()&types.IsString != 0:
			return SStr, true
		}
	case *types.Slice:
		if b, ok := u.Elem().Underlying().(*types.Basic); ok && b.Kind() == types.Uint8 {
			return SBytes, true
		}
	case *types.Interface:
		if typeKey(t) == "error" {
			return SInt, true
		}
	}
	return "", false
}

func isCoinsType(t types.Type) (dec bool, ok bool) {
	s, isSlice := t.Underlying().(*types.Slice)
	if !isSlice {
		return false, false
	}
	switch typeKey(s.Elem()) {
	case tCoin:
		return false, true
	case tDecCoin:
		return true, true
	}
	return false, false
}

func isOpaqueType(t types.Type) bool {
	switch typeKey(t) {
	case tSdkCtx, tCtx:
		return true
	}
	return false
}

// Leaf describes one scalar component of a composite type (used for marshal/unmarshal and heaps).
type Leaf struct {
	Path string // e.g. "RewardWeightRange.Min"
	Sort Sort
}

// leavesOf enumerates scalar leaves of a type for (un)marshalling and symbolic heaps.
// Sequences contribute their length and per-leaf arrays; coins contribute (Len, DenomAt, AmtAt, M).
func leavesOf(t types.Type) []Leaf {
	var out []Leaf
	seenPtr := map[string]bool{}
	var walk func(t types.Type, path string)
	walk = func(t types.Type, path string) {
		if s, ok := leafSortOf(t); ok {
			out = append(out, Leaf{path, s})
			return
		}
		if dec, ok := isCoinsType(t); ok {
			as := SInt
			if dec {
				as = SDec
			}
			out = append(out, Leaf{path + "#M", ArrSort(SStr, as)})
			return
		}
		switch u := t.Underlying().(type) {
		case *types.Struct:
			for i := 0; i < u.NumFields(); i++ {
				f := u.Field(i)
				p := f.Name()
				if path != "" {
					p = path + "." + f.Name()
				}
				walk(f.Type(), p)
			}
		case *types.Slice:
			out = append(out, Leaf{path + "#len", SInt})
			el := u.Elem()
			if p, ok := el.Underlying().(*types.Pointer); ok {
				el = p.Elem() // proto []*T: (un)marshalled by value
			}
			for _, l := range leavesOf(el) {
				out = append(out, Leaf{path + "[]" + l.Path, ArrSort(SInt, l.Sort)})
			}
		case *types.Pointer:
			// a pointer FIELD of a struct that is stored in a sequence / symbolic heap is stored BY VALUE
			// (assumption A-VALSEQ, see flatten): the pointee's leaves. Marshalled state types have no such fields.
			if _, isStruct := u.Elem().Underlying().(*types.Struct); isStruct && path != "" && !seenPtr[typeKey(u.Elem())] {
				seenPtr[typeKey(u.Elem())] = true
				walk(u.Elem(), path+"*")
				delete(seenPtr, typeKey(u.Elem()))
			} else {
				out = append(out, Leaf{path + "#ptr", SInt})
			}
		default:
			out = append(out, Leaf{path + "#opaque", SInt})
		}
	}
	walk(t, "")
	return out
}

func shortType(t types.Type) string {
	s := typeKey(t)
	if i := strings.LastIndex(s, "/"); i >= 0 {
		s = s[i+1:]
	}
	s = strings.TrimPrefix(s, "*")
	return sanitize(s)
}

func describe(v Val) string {
	switch x := v.(type) {
	case *Term:
		return x.S
	case *StructV:
		var parts []string
		for _, f := range x.F {
			parts = append(parts, describe(f))
		}
		return shortType(x.Typ) + "{" + strings.Join(parts, ", ") + "}"
	case *PtrV:
		return fmt.Sprintf("&cell%d%v", x.Cell, x.Path)
	case *NilV:
		return "nil"
	case *TupleV:
		var parts []string
		for _, f := range x.Vs {
			parts = append(parts, describe(f))
		}
		return "(" + strings.Join(parts, ", ") + ")"
	case *OpaqueV:
		return "<" + x.Tag + ">"
	case *CoinsV:
		return "coins(" + x.M.S + ")"
	case *SeqV:
		return "seq(len=" + x.Len.S + ")"
	case nil:
		return "<nil>"
	}
	return fmt.Sprintf("%T", v)
}
