package main

import (
	"fmt"
	"go/types"
	"math/big"
	"strings"

	"golang.org/x/tools/go/ssa"
)

// Assumed contracts on dependencies (DESIGN.md section 5.1). Every model records the assumption id it
// belongs to through E.Assume, so the evidence lists exactly the assumptions a run relied on.

const (
	pkgMath   = "cosmossdk.io/math"
	pkgSdk    = "github.com/cosmos/cosmos-sdk/types"
	pkgStake  = "github.com/cosmos/cosmos-sdk/x/staking/types"
	pkgStoreT = "cosmossdk.io/store/types"
)

func term(v Val) *Term {
	t, ok := v.(*Term)
	if !ok {
		panic(unsupported(fmt.Sprintf("expected a scalar term, got %T", v)))
	}
	return t
}

func decOp(op string, args ...*Term) *Term { return App(SDec, op, args...) }

func init() {
	dec := "(" + pkgMath + ".LegacyDec)."
	in := "(" + pkgMath + ".Int)."
	aDec := func(m *Machine) {
		m.E.Assume("A-DEC", "math.LegacyDec / math.Int immutable methods: exact 18-digit fixed point with banker's rounding (Mul, Quo), truncation (QuoInt, TruncateInt), transcribed from cosmossdk.io/math v1.2.0 dec.go; Power via axioms (x^0=1, x^1=x, 0<=x<=1 => 0<=x^n<=1 and x^n<=x for n>=1)")
		m.E.Assume("A-OVF", "bit-length overflow panics of math.Int (256 bits) and math.LegacyDec (315 bits) do not fire; Go int64/uint64 arithmetic is treated as mathematical")
		m.E.Assume("A-DECNIL", "nil decimals are not modelled: IsNil() reads as false (every operation on a nil decimal panics, which aborts the transaction)")
	}
	// comparisons / predicates
	for name, f := range map[string]func(a, b *Term) *Term{
		"Equal": Eq, "GT": Gt, "GTE": Ge, "LT": Lt, "LTE": Le,
	} {
		f := f
		models[dec+name] = func(m *Machine, _ *Frame, _ *ssa.CallCommon, a []Val) Val { aDec(m); return f(term(a[0]), term(a[1])) }
		models[in+name] = func(m *Machine, _ *Frame, _ *ssa.CallCommon, a []Val) Val { aDec(m); return f(term(a[0]), term(a[1])) }
	}
	for _, p := range []string{dec, in} {
		isDec := p == dec
		zero := func() *Term {
			if isDec {
				return DecInt(0)
			}
			return IntLit(0)
		}
		models[p+"IsZero"] = func(m *Machine, _ *Frame, _ *ssa.CallCommon, a []Val) Val { aDec(m); return Eq(term(a[0]), zero()) }
		models[p+"IsNegative"] = func(m *Machine, _ *Frame, _ *ssa.CallCommon, a []Val) Val { aDec(m); return Lt(term(a[0]), zero()) }
		models[p+"IsPositive"] = func(m *Machine, _ *Frame, _ *ssa.CallCommon, a []Val) Val { aDec(m); return Gt(term(a[0]), zero()) }
		models[p+"IsNil"] = func(m *Machine, _ *Frame, _ *ssa.CallCommon, a []Val) Val { aDec(m); return False }
		models[p+"Add"] = func(m *Machine, _ *Frame, _ *ssa.CallCommon, a []Val) Val { aDec(m); return Add(term(a[0]), term(a[1])) }
		models[p+"Sub"] = func(m *Machine, _ *Frame, _ *ssa.CallCommon, a []Val) Val { aDec(m); return Sub(term(a[0]), term(a[1])) }
		models[p+"Neg"] = func(m *Machine, _ *Frame, _ *ssa.CallCommon, a []Val) Val { aDec(m); return Neg(term(a[0])) }
		models[p+"String"] = func(m *Machine, _ *Frame, _ *ssa.CallCommon, a []Val) Val {
			// decimal rendering: an injective function of the number
			fn, inv := "numstr", "numstr_inv"
			srt := SInt
			if isDec {
				fn, inv, srt = "decstr", "decstr_inv", SDec
			}
			m.E.D.Fun(fn, []Sort{srt}, SStr)
			m.E.D.Fun(inv, []Sort{SStr}, srt)
			m.E.D.Axiom(fmt.Sprintf("(forall ((x %s)) (! (= (%s (%s x)) x) :pattern ((%s x))))", srt, inv, fn, fn))
			return App(SStr, fn, term(a[0]))
		}
	}
	models[dec+"Abs"] = func(m *Machine, _ *Frame, _ *ssa.CallCommon, a []Val) Val { aDec(m); return decOp("dabs", term(a[0])) }
	models[dec+"Mul"] = func(m *Machine, _ *Frame, _ *ssa.CallCommon, a []Val) Val { aDec(m); return decOp("dmul", term(a[0]), term(a[1])) }
	models[dec+"MulInt"] = func(m *Machine, _ *Frame, _ *ssa.CallCommon, a []Val) Val { aDec(m); return decOp("dmulint", term(a[0]), term(a[1])) }
	models[dec+"Quo"] = func(m *Machine, _ *Frame, _ *ssa.CallCommon, a []Val) Val {
		aDec(m)
		m.safeSite("quo0", Neq(term(a[1]), DecInt(0)), "LegacyDec.Quo by zero panics")
		return decOp("dquo", term(a[0]), term(a[1]))
	}
	models[dec+"QuoInt"] = func(m *Machine, _ *Frame, _ *ssa.CallCommon, a []Val) Val {
		aDec(m)
		m.safeSite("quo0", Neq(term(a[1]), IntLit(0)), "LegacyDec.QuoInt by zero panics")
		return decOp("dquoint", term(a[0]), term(a[1]))
	}
	models[dec+"Power"] = func(m *Machine, _ *Frame, _ *ssa.CallCommon, a []Val) Val { aDec(m); return decOp("dpow", term(a[0]), term(a[1])) }
	models[dec+"TruncateInt"] = func(m *Machine, _ *Frame, _ *ssa.CallCommon, a []Val) Val { aDec(m); return App(SInt, "dtrunc", term(a[0])) }
	models[dec+"RoundInt"] = func(m *Machine, _ *Frame, _ *ssa.CallCommon, a []Val) Val { aDec(m); return App(SInt, "dround", term(a[0])) }
	models[dec+"MulTruncate"] = func(m *Machine, _ *Frame, _ *ssa.CallCommon, a []Val) Val { aDec(m); return decOp("dmultrunc", term(a[0]), term(a[1])) }
	models[dec+"Ceil"] = func(m *Machine, _ *Frame, _ *ssa.CallCommon, a []Val) Val { aDec(m); return decOp("dceil", term(a[0])) }
	models[dec+"TruncateDec"] = func(m *Machine, _ *Frame, _ *ssa.CallCommon, a []Val) Val { aDec(m); return decOp("dtruncdec", term(a[0])) }
	models[pkgMath+".LegacyZeroDec"] = func(m *Machine, _ *Frame, _ *ssa.CallCommon, a []Val) Val { return DecInt(0) }
	models[pkgMath+".LegacyOneDec"] = func(m *Machine, _ *Frame, _ *ssa.CallCommon, a []Val) Val { return DecInt(1) }
	models[pkgMath+".LegacyNewDecFromInt"] = func(m *Machine, _ *Frame, _ *ssa.CallCommon, a []Val) Val { aDec(m); return decOp("dofint", term(a[0])) }
	models[pkgMath+".LegacyNewDec"] = func(m *Machine, _ *Frame, _ *ssa.CallCommon, a []Val) Val { return decOp("dofint", term(a[0])) }
	models[pkgMath+".LegacyNewDecWithPrec"] = func(m *Machine, _ *Frame, _ *ssa.CallCommon, a []Val) Val {
		i, ok1 := isIntLit(term(a[0]))
		p, ok2 := isIntLit(term(a[1]))
		if !ok1 || !ok2 {
			panic(unsupported("LegacyNewDecWithPrec with symbolic arguments"))
		}
		return DecRaw(new(big.Int).Mul(i, pow10(18-int(p.Int64()))))
	}
	models[pkgMath+".ZeroInt"] = func(m *Machine, _ *Frame, _ *ssa.CallCommon, a []Val) Val { return IntLit(0) }
	models[pkgMath+".OneInt"] = func(m *Machine, _ *Frame, _ *ssa.CallCommon, a []Val) Val { return IntLit(1) }
	models[pkgMath+".NewInt"] = func(m *Machine, _ *Frame, _ *ssa.CallCommon, a []Val) Val { return term(a[0]) }
	models[in+"Mul"] = func(m *Machine, _ *Frame, _ *ssa.CallCommon, a []Val) Val { aDec(m); return Mul(term(a[0]), term(a[1])) }
	models[in+"AddRaw"] = func(m *Machine, _ *Frame, _ *ssa.CallCommon, a []Val) Val { return Add(term(a[0]), term(a[1])) }
	models[in+"SubRaw"] = func(m *Machine, _ *Frame, _ *ssa.CallCommon, a []Val) Val { return Sub(term(a[0]), term(a[1])) }
	models[in+"MulRaw"] = func(m *Machine, _ *Frame, _ *ssa.CallCommon, a []Val) Val { return Mul(term(a[0]), term(a[1])) }
	models[in+"Quo"] = func(m *Machine, _ *Frame, _ *ssa.CallCommon, a []Val) Val {
		m.safeSite("div0", Neq(term(a[1]), IntLit(0)), "Int.Quo by zero panics")
		return App(SInt, "tdiv", term(a[0]), term(a[1]))
	}
	models[in+"Int64"] = func(m *Machine, _ *Frame, _ *ssa.CallCommon, a []Val) Val {
		// math.Int.Int64 panics ("Int64() out of bound") when the value does not fit
		x := term(a[0])
		m.safeSite("int64", And(Ge(x, T(SInt, "(- 9223372036854775808)")), Le(x, T(SInt, "9223372036854775807"))), "math.Int.Int64 panics when the value does not fit into an int64")
		return x
	}

	// ---- time ----
	aTime := func(m *Machine) {
		m.E.Assume("A-TIME", "time.Time is an integer nanosecond axis with time.Time{} = year 1 (tzero); After/Before/Equal/Add exact; Sub saturates at +-2^63-1 ns; monotonic clock readings and locations are ignored")
		m.E.D.Declare("tzero", "(define-fun tzero () Int (- 62135596800000000000))")
	}
	tm := "(time.Time)."
	models[tm+"After"] = func(m *Machine, _ *Frame, _ *ssa.CallCommon, a []Val) Val { aTime(m); return Gt(term(a[0]), term(a[1])) }
	models[tm+"Before"] = func(m *Machine, _ *Frame, _ *ssa.CallCommon, a []Val) Val { aTime(m); return Lt(term(a[0]), term(a[1])) }
	models[tm+"Equal"] = func(m *Machine, _ *Frame, _ *ssa.CallCommon, a []Val) Val { aTime(m); return Eq(term(a[0]), term(a[1])) }
	models[tm+"Add"] = func(m *Machine, _ *Frame, _ *ssa.CallCommon, a []Val) Val { aTime(m); return Add(term(a[0]), term(a[1])) }
	// time.Duration.Round(m): nearest multiple of m, halves away from zero (m <= 0 returns d); Truncate: toward zero
	models["(time.Duration).Round"] = func(m *Machine, _ *Frame, _ *ssa.CallCommon, a []Val) Val {
		d, mm := term(a[0]).S, term(a[1]).S
		return T(SInt, fmt.Sprintf("(ite (<= %[2]s 0) %[1]s (let ((r (tmod %[1]s %[2]s))) (ite (< %[1]s 0) (let ((rr (- r))) (ite (< (+ rr rr) %[2]s) (+ %[1]s rr) (- (+ %[1]s rr) %[2]s))) (ite (< (+ r r) %[2]s) (- %[1]s r) (- (+ %[1]s %[2]s) r)))))", d, mm))
	}
	models["(time.Duration).Truncate"] = func(m *Machine, _ *Frame, _ *ssa.CallCommon, a []Val) Val {
		d, mm := term(a[0]).S, term(a[1]).S
		return T(SInt, fmt.Sprintf("(ite (<= %[2]s 0) %[1]s (- %[1]s (tmod %[1]s %[2]s)))", d, mm))
	}
	models[tm+"Unix"] = func(m *Machine, _ *Frame, _ *ssa.CallCommon, a []Val) Val {
		aTime(m)
		return T(SInt, "(div "+term(a[0]).S+" 1000000000)")
	}
	models[tm+"UnixNano"] = func(m *Machine, _ *Frame, _ *ssa.CallCommon, a []Val) Val { aTime(m); return term(a[0]) }
	models[tm+"IsZero"] = func(m *Machine, _ *Frame, _ *ssa.CallCommon, a []Val) Val { aTime(m); return Eq(term(a[0]), tzero()) }
	models[tm+"Sub"] = func(m *Machine, _ *Frame, _ *ssa.CallCommon, a []Val) Val {
		aTime(m)
		d := Sub(term(a[0]), term(a[1]))
		maxd := T(SInt, "9223372036854775807")
		mind := T(SInt, "(- 9223372036854775808)")
		return Ite(Gt(d, maxd), maxd, Ite(Lt(d, mind), mind, d))
	}
	models[tm+"UnixNano"] = func(m *Machine, _ *Frame, _ *ssa.CallCommon, a []Val) Val { aTime(m); return term(a[0]) }
	models[tm+"Nanosecond"] = func(m *Machine, _ *Frame, _ *ssa.CallCommon, a []Val) Val {
		aTime(m)
		return App(SInt, "mod", term(a[0]), T(SInt, "1000000000"))
	}

	// ---- context ----
	aEnv := func(m *Machine) {
		m.E.Assume("A-ENV", "ctx.BlockTime()/BlockHeader().Time (now) and BlockHeight() (height >= 0) are constant during a call; UnwrapSDKContext is the identity")
		m.E.D.Const("now", SInt)
		m.E.D.Const("height", SInt)
		m.E.D.Axiom("(>= height 0)")
		aTime(m)
		m.E.D.Axiom("(> now tzero)")
	}
	sctx := "(" + pkgSdk + ".Context)."
	models[pkgSdk+".UnwrapSDKContext"] = func(m *Machine, _ *Frame, _ *ssa.CallCommon, a []Val) Val { aEnv(m); return &OpaqueV{Tag: "ctx"} }
	models[sctx+"BlockTime"] = func(m *Machine, _ *Frame, _ *ssa.CallCommon, a []Val) Val { aEnv(m); return nowTerm() }
	models[sctx+"BlockHeight"] = func(m *Machine, _ *Frame, _ *ssa.CallCommon, a []Val) Val { aEnv(m); return T(SInt, "height") }
	models[sctx+"BlockHeader"] = func(m *Machine, _ *Frame, _ *ssa.CallCommon, a []Val) Val { aEnv(m); return &OpaqueV{Tag: "header"} }
	models[sctx+"EventManager"] = func(m *Machine, _ *Frame, _ *ssa.CallCommon, a []Val) Val { return &OpaqueV{Tag: "evm"} }
	models[sctx+"Logger"] = func(m *Machine, _ *Frame, _ *ssa.CallCommon, a []Val) Val { return &OpaqueV{Tag: "logger"} }
	models["(*"+pkgSdk+".EventManager).EmitTypedEvent"] = func(m *Machine, _ *Frame, _ *ssa.CallCommon, a []Val) Val {
		m.E.Assume("A-DROP", "event emission, logging and telemetry are dropped")
		return IntLit(0)
	}
	invokeModels["evm.EmitTypedEvent"] = func(m *Machine, _ *Frame, _ *ssa.CallCommon, a []Val) Val {
		m.E.Assume("A-DROP", "event emission, logging and telemetry are dropped")
		return IntLit(0)
	}
	invokeModels["evm.EmitEvent"] = func(m *Machine, _ *Frame, _ *ssa.CallCommon, a []Val) Val { return &TupleV{} }
	models["(*"+pkgSdk+".EventManager).EmitEvent"] = func(m *Machine, _ *Frame, _ *ssa.CallCommon, a []Val) Val { return &TupleV{} }
	models["github.com/cosmos/cosmos-sdk/telemetry.ModuleMeasureSince"] = func(m *Machine, _ *Frame, _ *ssa.CallCommon, a []Val) Val { return &TupleV{} }

	// ---- errors ----
	newErr := func(m *Machine, _ *Frame, _ *ssa.CallCommon, a []Val) Val { return m.E.freshErr() }
	models["google.golang.org/grpc/status.Errorf"] = newErr
	models["google.golang.org/grpc/status.Error"] = newErr
	models["fmt.Errorf"] = newErr
	models["errors.New"] = newErr
	wrap := func(m *Machine, _ *Frame, _ *ssa.CallCommon, a []Val) Val {
		e := term(a[0])
		if e.S == "0" {
			return e
		}
		if _, ok := isIntLit(e); ok {
			return e
		}
		return e // Wrap(nil) = nil, Wrap(err) != nil: nil-ness is preserved, which is all the model keeps
	}
	models["encoding/json.Marshal"] = func(m *Machine, _ *Frame, _ *ssa.CallCommon, a []Val) Val {
		m.E.Assume("A-JSON", "encoding/json.Marshal of a struct is an injective function of its field values and does not fail on the response structs")
		iv, ok := a[0].(*IfaceV)
		if !ok || iv.V == nil {
			panic(unsupported("json.Marshal of a non-struct value"))
		}
		t := iv.Dyn
		v := iv.V
		if pt, isP := t.Underlying().(*types.Pointer); isP {
			t = pt.Elem()
			v = m.Load(v)
		}
		leaves := m.flatten(v, t)
		var sorts []Sort
		for _, l := range leaves {
			sorts = append(sorts, l.Sort)
		}
		fn := "json_" + shortType(t)
		m.E.D.Fun(fn, sorts, SBytes)
		return &TupleV{Vs: []Val{App(SBytes, fn, leaves...), IntLit(0)}}
	}
	models["net/url.QueryUnescape"] = func(m *Machine, _ *Frame, _ *ssa.CallCommon, a []Val) Val {
		m.E.D.Fun("urlunesc", []Sort{SStr}, SStr)
		m.E.D.Fun("urlunesc_ok", []Sort{SStr}, SBool)
		return &TupleV{Vs: []Val{App(SStr, "urlunesc", term(a[0])), Ite(App(SBool, "urlunesc_ok", term(a[0])), IntLit(0), IntLit(994))}}
	}
	models["errors.Is"] = func(m *Machine, _ *Frame, _ *ssa.CallCommon, a []Val) Val {
		m.E.Assume("A-ERRORS", "errors.Is(err, sentinel) is read as identity with the sentinel (errors are nil/non-nil plus sentinel identity)")
		return And(Neq(term(a[0]), IntLit(0)), Eq(term(a[0]), term(a[1])))
	}
	models["cosmossdk.io/errors.Wrap"] = wrap
	models["cosmossdk.io/errors.Wrapf"] = wrap
	models["(*cosmossdk.io/errors.Error).Wrap"] = wrap
	models["(*cosmossdk.io/errors.Error).Wrapf"] = wrap
	models["(*cosmossdk.io/errors.Error).Error"] = func(m *Machine, _ *Frame, _ *ssa.CallCommon, a []Val) Val { return m.E.D.Fresh("errstr", SStr) }

	// ---- bech32 ----
	aBech := func(m *Machine) {
		m.E.Assume("A-BECH32", "AccAddressFromBech32/ValAddressFromBech32 and .String() are mutually inverse; no error exactly on strings produced by .String()")
		for _, k := range []string{"acc", "val"} {
			m.E.D.Fun(k+"_str", []Sort{SBytes}, SStr)
			m.E.D.Fun(k+"_of", []Sort{SStr}, SBytes)
			m.E.D.Fun(k+"_ok", []Sort{SStr}, SBool)
			m.E.D.Axiom(fmt.Sprintf("(forall ((b Bytes)) (! (and (= (%s_of (%s_str b)) b) (%s_ok (%s_str b))) :pattern ((%s_str b))))", k, k, k, k, k))
			m.E.D.Axiom(fmt.Sprintf("(forall ((s Str)) (! (=> (%s_ok s) (= (%s_str (%s_of s)) s)) :pattern ((%s_of s))))", k, k, k, k))
		}
	}
	fromBech := func(k string) ModelFn {
		return func(m *Machine, _ *Frame, _ *ssa.CallCommon, a []Val) Val {
			aBech(m)
			s := term(a[0])
			ok := App(SBool, k+"_ok", s)
			return &TupleV{Vs: []Val{App(SBytes, k+"_of", s), Ite(ok, IntLit(0), m.errSym("bech32"))}}
		}
	}
	models[pkgSdk+".AccAddressFromBech32"] = fromBech("acc")
	models[pkgSdk+".ValAddressFromBech32"] = fromBech("val")
	models[pkgSdk+".MustAccAddressFromBech32"] = func(m *Machine, _ *Frame, _ *ssa.CallCommon, a []Val) Val {
		aBech(m)
		s := term(a[0])
		m.safeSite("bech32", App(SBool, "acc_ok", s), "MustAccAddressFromBech32 panics on an invalid address")
		return App(SBytes, "acc_of", s)
	}
	models["("+pkgSdk+".AccAddress).String"] = func(m *Machine, _ *Frame, _ *ssa.CallCommon, a []Val) Val { aBech(m); return App(SStr, "acc_str", term(a[0])) }
	models["("+pkgSdk+".ValAddress).String"] = func(m *Machine, _ *Frame, _ *ssa.CallCommon, a []Val) Val { aBech(m); return App(SStr, "val_str", term(a[0])) }
	models[pkgSdk+".ValidateDenom"] = func(m *Machine, _ *Frame, _ *ssa.CallCommon, a []Val) Val {
		m.E.D.Fun("denom_ok", []Sort{SStr}, SBool)
		m.E.D.Axiom(fmt.Sprintf("(not (denom_ok %s))", m.E.D.StrLit("").S))
		return Ite(App(SBool, "denom_ok", term(a[0])), IntLit(0), m.errSym("denom"))
	}

	// ---- coins ----
	models[pkgSdk+".NewCoin"] = func(m *Machine, _ *Frame, _ *ssa.CallCommon, a []Val) Val {
		m.E.declCoinFuns(false)
		m.safeSite("negcoin", Ge(term(a[1]), IntLit(0)), "sdk.NewCoin panics on a negative amount")
		return m.E.mkCoin(false, term(a[0]), term(a[1]))
	}
	models[pkgSdk+".NewDecCoinFromDec"] = func(m *Machine, _ *Frame, _ *ssa.CallCommon, a []Val) Val {
		m.E.declCoinFuns(true)
		m.safeSite("negcoin", Ge(term(a[1]), DecInt(0)), "sdk.NewDecCoinFromDec panics on a negative amount")
		return m.E.mkCoin(true, term(a[0]), term(a[1]))
	}
	newCoins := func(dec bool) ModelFn {
		return func(m *Machine, _ *Frame, _ *ssa.CallCommon, a []Val) Val {
			m.E.declCoinFuns(dec)
			switch x := a[0].(type) {
			case *NilV:
				return m.E.emptyCoins(dec)
			case *SeqV:
				if x.Conc == nil {
					panic(unsupported("NewCoins of symbolic slice"))
				}
				if len(x.Conc) > 1 {
					panic(unsupported("NewCoins with more than one explicit coin"))
				}
				c := m.asCoins(x)
				return &CoinsV{Dec: c.Dec, M: c.M, IsSmall: c.IsSmall, Small: c.Small} // sanitised: zero amounts dropped
			case *CoinsV:
				// copy + sanitise of a valid list: same map
				return &CoinsV{Dec: dec, M: x.M, IsSmall: x.IsSmall, Small: x.Small}
			}
			panic(unsupported(fmt.Sprintf("NewCoins of %T", a[0])))
		}
	}
	// NewDecCoinsFromCoins(coins...): the same denoms, every amount as a decimal
	models[pkgSdk+".NewDecCoinsFromCoins"] = func(m *Machine, _ *Frame, _ *ssa.CallCommon, a []Val) Val {
		m.E.declCoinFuns(false)
		m.E.declCoinFuns(true)
		c := m.asCoins(a[0])
		if c.Dec {
			panic(unsupported("NewDecCoinsFromCoins of decimal coins"))
		}
		out := m.freshCoins(true, "deccoins", true)
		m.AssumeT(T(SBool, fmt.Sprintf("(forall ((d Str)) (! (= (select %s d) (dofint (select %s d))) :pattern ((select %s d))))", out.M.S, c.M.S, out.M.S)))
		return out
	}
	// DecCoins.MulDec / MulDecTruncate(d): every amount multiplied (rounded / truncated); TruncateDecimal: integer parts and the remainders
	for name, op := range map[string]string{"MulDec": "dmul", "MulDecTruncate": "dmultrunc"} {
		op := op
		models["("+pkgSdk+".DecCoins)."+name] = func(m *Machine, _ *Frame, _ *ssa.CallCommon, a []Val) Val {
			m.E.declCoinFuns(true)
			c := m.asCoins(a[0])
			out := m.freshCoins(true, "muldec", true)
			m.AssumeT(T(SBool, fmt.Sprintf("(forall ((d Str)) (! (= (select %s d) (%s (select %s d) %s)) :pattern ((select %s d))))", out.M.S, op, c.M.S, term(a[1]).S, out.M.S)))
			return out
		}
	}
	models["("+pkgSdk+".DecCoins).TruncateDecimal"] = func(m *Machine, _ *Frame, _ *ssa.CallCommon, a []Val) Val {
		m.E.declCoinFuns(true)
		m.E.declCoinFuns(false)
		c := m.asCoins(a[0])
		ints := m.freshCoins(false, "truncint", true)
		rem := m.freshCoins(true, "truncrem", true)
		m.AssumeT(T(SBool, fmt.Sprintf("(forall ((d Str)) (! (= (select %s d) (dtrunc (select %s d))) :pattern ((select %s d))))", ints.M.S, c.M.S, ints.M.S)))
		m.AssumeT(T(SBool, fmt.Sprintf("(forall ((d Str)) (! (= (select %s d) (- (select %s d) (dofint (dtrunc (select %s d))))) :pattern ((select %s d))))", rem.M.S, c.M.S, c.M.S, rem.M.S)))
		return &TupleV{Vs: []Val{ints, rem}}
	}
	models[pkgSdk+".NewCoins"] = newCoins(false)
	models[pkgSdk+".NewDecCoins"] = newCoins(true)
	for _, dc := range []bool{false, true} {
		dc := dc
		recv := "(" + pkgSdk + ".Coins)."
		if dc {
			recv = "(" + pkgSdk + ".DecCoins)."
		}
		models[recv+"AmountOf"] = func(m *Machine, _ *Frame, _ *ssa.CallCommon, a []Val) Val {
			return Select(m.asCoins(a[0]).M, term(a[1]))
		}
		models[recv+"Add"] = func(m *Machine, _ *Frame, _ *ssa.CallCommon, a []Val) Val {
			return m.coinsArith(m.asCoins(a[0]), m.asCoins(a[1]), true)
		}
		models[recv+"Sub"] = func(m *Machine, _ *Frame, _ *ssa.CallCommon, a []Val) Val {
			return m.coinsArith(m.asCoins(a[0]), m.asCoins(a[1]), false)
		}
		models[recv+"IsZero"] = func(m *Machine, _ *Frame, _ *ssa.CallCommon, a []Val) Val {
			return Eq(m.coinsLen(m.asCoins(a[0])), IntLit(0))
		}
		models[recv+"Empty"] = func(m *Machine, _ *Frame, _ *ssa.CallCommon, a []Val) Val {
			return Eq(m.coinsLen(m.asCoins(a[0])), IntLit(0))
		}
		models[recv+"String"] = func(m *Machine, _ *Frame, _ *ssa.CallCommon, a []Val) Val { return m.E.D.Fresh("coinsstr", SStr) }
	}
	coin := "(" + pkgSdk + ".Coin)."
	models[coin+"IsZero"] = func(m *Machine, _ *Frame, _ *ssa.CallCommon, a []Val) Val { return Eq(term(a[0].(*StructV).F[1]), IntLit(0)) }
	models[coin+"IsPositive"] = func(m *Machine, _ *Frame, _ *ssa.CallCommon, a []Val) Val { return Gt(term(a[0].(*StructV).F[1]), IntLit(0)) }
	models[coin+"IsNegative"] = func(m *Machine, _ *Frame, _ *ssa.CallCommon, a []Val) Val { return Lt(term(a[0].(*StructV).F[1]), IntLit(0)) }
	models[coin+"String"] = func(m *Machine, _ *Frame, _ *ssa.CallCommon, a []Val) Val { return m.E.D.Fresh("coinstr", SStr) }
	models[coin+"Add"] = func(m *Machine, _ *Frame, _ *ssa.CallCommon, a []Val) Val {
		x, y := a[0].(*StructV), a[1].(*StructV)
		m.safeSite("coindenom", Eq(term(x.F[0]), term(y.F[0])), "Coin.Add panics on different denoms")
		return m.E.mkCoin(false, term(x.F[0]), Add(term(x.F[1]), term(y.F[1])))
	}
	deccoin := "(" + pkgSdk + ".DecCoin)."
	models[deccoin+"IsNegative"] = func(m *Machine, _ *Frame, _ *ssa.CallCommon, a []Val) Val { return Lt(term(a[0].(*StructV).F[1]), DecInt(0)) }
	models[deccoin+"IsZero"] = func(m *Machine, _ *Frame, _ *ssa.CallCommon, a []Val) Val { return Eq(term(a[0].(*StructV).F[1]), DecInt(0)) }

	// ---- staking value types ----
	sv := "(" + pkgStake + ".Validator)."
	models[sv+"GetOperator"] = func(m *Machine, f *Frame, cc *ssa.CallCommon, a []Val) Val { return stakingField(a[0], "OperatorAddress") }
	models[sv+"IsBonded"] = func(m *Machine, f *Frame, cc *ssa.CallCommon, a []Val) Val {
		m.E.Assume("A-STAKING", "x/staking: validator status/tokens/shares and delegations are read from ghost staking state; Delegate/Unbond move tokens as specified in DESIGN.md 5.1; BondStatus Bonded = 3")
		return Eq(term(stakingField(a[0], "Status")), IntLit(3))
	}
	models[sv+"IsUnbonding"] = func(m *Machine, f *Frame, cc *ssa.CallCommon, a []Val) Val {
		return Eq(term(stakingField(a[0], "Status")), IntLit(2))
	}
	models[sv+"IsUnbonded"] = func(m *Machine, f *Frame, cc *ssa.CallCommon, a []Val) Val {
		return Eq(term(stakingField(a[0], "Status")), IntLit(1))
	}
	models[sv+"IsJailed"] = func(m *Machine, f *Frame, cc *ssa.CallCommon, a []Val) Val { return stakingField(a[0], "Jailed") }
	models[sv+"TokensFromShares"] = func(m *Machine, f *Frame, cc *ssa.CallCommon, a []Val) Val {
		// (shares * tokens) / delegatorShares
		tok := term(stakingField(a[0], "Tokens"))
		ds := term(stakingField(a[0], "DelegatorShares"))
		return decOp("dquo", decOp("dmulint", term(a[1]), tok), ds)
	}
	models[sv+"TokensFromSharesTruncated"] = func(m *Machine, f *Frame, cc *ssa.CallCommon, a []Val) Val {
		tok := term(stakingField(a[0], "Tokens"))
		ds := term(stakingField(a[0], "DelegatorShares"))
		m.E.D.Fun("dquotrunc", []Sort{SDec, SDec}, SDec)
		return decOp("dquotrunc", decOp("dmulint", term(a[1]), tok), ds)
	}
	models["(*"+pkgStake+".Validator).Equal"] = func(m *Machine, f *Frame, cc *ssa.CallCommon, a []Val) Val {
		m.E.Assume("A-VALEQ", "staking Validator.Equal is read as equality of operator addresses (distinct validators have distinct operators)")
		x := m.Load(a[0]).(*StructV)
		var y *StructV
		switch b := a[1].(type) {
		case *IfaceV:
			y = m.Load(b.V).(*StructV)
		default:
			y = m.Load(b).(*StructV)
		}
		return Eq(term(stakingField(x, "OperatorAddress")), term(stakingField(y, "OperatorAddress")))
	}
	models["("+pkgStake+".Delegation).GetShares"] = func(m *Machine, f *Frame, cc *ssa.CallCommon, a []Val) Val { return stakingField(a[0], "Shares") }

	// ---- store ----
	registerStoreModels()
	registerCodecModels()
	registerKeeperModels()
}

func stakingField(v Val, name string) Val {
	sv, ok := v.(*StructV)
	if !ok {
		panic(unsupported(fmt.Sprintf("staking value is %T", v)))
	}
	st := sv.Typ.Underlying().(*types.Struct)
	for i := 0; i < st.NumFields(); i++ {
		if st.Field(i).Name() == name {
			return sv.F[i]
		}
	}
	panic(unsupported("no field " + name))
}

// errSym returns a fresh error that is non-nil.
func (m *Machine) errSym(hint string) *Term { return m.E.freshErr() }

// coinsArith: point-wise add/sub on the map view.
func (m *Machine) coinsArith(a, b *CoinsV, add bool) *CoinsV {
	m.E.declCoinFuns(a.Dec)
	amtSort, arr, _ := coinSorts(a.Dec)
	if b.IsSmall || (len(b.Small) > 0) {
		M := a.M
		for _, p := range b.Small {
			cur := Select(M, p.Denom)
			var nv *Term
			if add {
				nv = Add(cur, p.Amt)
			} else {
				nv = Sub(cur, p.Amt)
				m.safeSite("coinsub", Ge(nv, coinZero(a.Dec)), "Coins.Sub/DecCoins.Sub panics on a negative result")
			}
			M = Store(M, p.Denom, nv)
		}
		res := &CoinsV{Dec: a.Dec, M: M}
		if a.IsSmall && len(a.Small) == 0 && len(b.Small) <= 1 && add {
			res.IsSmall, res.Small = true, b.Small
		}
		return res
	}
	op := "+"
	if !add {
		op = "-"
	}
	m.Z3Ext = true
	M := T(arr, fmt.Sprintf("((_ map (%s (%s %s) %s)) %s %s)", op, amtSort, amtSort, amtSort, a.M.S, b.M.S))
	if !add {
		z := coinZero(a.Dec)
		m.safeSite("coinsub", T(SBool, fmt.Sprintf("(forall ((d Str)) (>= (select %s d) %s))", M.S, z.S)), "Coins.Sub/DecCoins.Sub panics on a negative result")
	}
	return &CoinsV{Dec: a.Dec, M: M}
}

func lastSeg(s string) string { return s[strings.LastIndex(s, ".")+1:] }
