package main

import (
	"fmt"
	"go/ast"
	"go/token"
	"go/types"
	"os"
	"sort"
	"strings"

	"golang.org/x/tools/go/packages"
	"golang.org/x/tools/go/ssa"
	"golang.org/x/tools/go/ssa/ssautil"
)

const modPath = "github.com/terra-money/alliance"

var loadPatterns = []string{
	"./x/alliance", "./x/alliance/keeper", "./x/alliance/types", "./x/alliance/bindings", "./custom/bank/keeper",
}

type Program struct {
	Prog  *ssa.Program
	Pkgs  []*packages.Package
	SSA   map[string]*ssa.Package // by import path
	Fset  *token.FileSet
	Funcs map[string]*ssa.Function // by short name, see FuncName
	Root  string
}

// FuncName gives the contract-file name of a function: "Func", "(Recv).Method", prefixed by the package's
// last path element when outside x/alliance/keeper: "types.GetValidatorShares", "alliance.EndBlocker".
func FuncName(fn *ssa.Function) string {
	if fn.Pkg == nil {
		return fn.String()
	}
	pkg := fn.Pkg.Pkg.Path()
	short := pkg[strings.LastIndex(pkg, "/")+1:]
	if strings.HasSuffix(pkg, "custom/bank/keeper") {
		short = "custombank"
	}
	name := fn.Name()
	if recv := fn.Signature.Recv(); recv != nil {
		rt := recv.Type()
		ptr := ""
		if p, ok := rt.(*types.Pointer); ok {
			rt = p.Elem()
			ptr = "*"
		}
		rn := rt.String()
		rn = rn[strings.LastIndex(rn, ".")+1:]
		name = "(" + ptr + rn + ")." + name
	}
	return short + "." + name
}

func Load(root string) (*Program, error) {
	cfg := &packages.Config{
		Mode:       packages.LoadAllSyntax,
		Dir:        root,
		BuildFlags: []string{"-tags=verif"},
		Env:        append(os.Environ(), "GOFLAGS=-mod=mod", "GOPROXY=off", "GOSUMDB=off", "GOTOOLCHAIN=local"),
	}
	pkgs, err := packages.Load(cfg, loadPatterns...)
	if err != nil {
		return nil, err
	}
	nerr := 0
	for _, p := range pkgs {
		for _, e := range p.Errors {
			fmt.Fprintf(os.Stderr, "load error: %s: %v\n", p.PkgPath, e)
			nerr++
		}
	}
	if nerr > 0 {
		return nil, fmt.Errorf("%d package errors (the tree does not compile)", nerr)
	}
	prog, spkgs := ssautil.AllPackages(pkgs, ssa.InstantiateGenerics|ssa.GlobalDebug)
	prog.Build()
	P := &Program{Prog: prog, Pkgs: pkgs, SSA: map[string]*ssa.Package{}, Funcs: map[string]*ssa.Function{}, Root: root}
	if len(pkgs) > 0 {
		P.Fset = pkgs[0].Fset
	}
	for i, p := range pkgs {
		if spkgs[i] == nil {
			continue
		}
		P.SSA[p.PkgPath] = spkgs[i]
	}
	for _, sp := range P.SSA {
		for _, m := range sp.Members {
			switch x := m.(type) {
			case *ssa.Function:
				P.Funcs[FuncName(x)] = x
				for _, an := range x.AnonFuncs {
					P.Funcs[FuncName(x)+"$"+an.Name()] = an
				}
			case *ssa.Type:
				for _, t := range []types.Type{x.Type(), types.NewPointer(x.Type())} {
					ms := prog.MethodSets.MethodSet(t)
					for i := 0; i < ms.Len(); i++ {
						fn := prog.MethodValue(ms.At(i))
						if fn == nil || fn.Pkg != sp || fn.Synthetic != "" {
							continue
						}
						P.Funcs[FuncName(fn)] = fn
					}
				}
			}
		}
	}
	return P, nil
}

func (P *Program) FuncNames() []string {
	var out []string
	for k := range P.Funcs {
		out = append(out, k)
	}
	sort.Strings(out)
	return out
}

// ContractComments returns the text of every "//@" comment line found in files named zz_verif_contracts*.go
// of the loaded packages, together with the file position.
type SpecLine struct {
	File string
	Line int
	Text string
}

func (P *Program) ContractLines() []SpecLine {
	var out []SpecLine
	for _, p := range P.Pkgs {
		for _, f := range p.Syntax {
			fname := P.Fset.Position(f.Pos()).Filename
			if !strings.Contains(fname, "zz_verif_contracts") {
				continue
			}
			out = append(out, commentLines(P.Fset, f)...)
		}
	}
	return out
}

func commentLines(fset *token.FileSet, f *ast.File) []SpecLine {
	var out []SpecLine
	for _, cg := range f.Comments {
		for _, c := range cg.List {
			t := c.Text
			pos := fset.Position(c.Pos())
			if strings.HasPrefix(t, "//@") {
				out = append(out, SpecLine{pos.Filename, pos.Line, strings.TrimSpace(t[3:])})
			} else if strings.HasPrefix(t, "// @") {
				out = append(out, SpecLine{pos.Filename, pos.Line, strings.TrimSpace(t[4:])})
			}
		}
	}
	return out
}
