package main

import (
	"fmt"
	"go/types"
	"strings"

	"golang.org/x/tools/go/ssa"
)

// ---------------- store ----------------

const (
	ifKVService = "cosmossdk.io/core/store.KVStoreService"
	ifCoreKV    = "cosmossdk.io/core/store.KVStore"
	ifKV        = "cosmossdk.io/store/types.KVStore"
	ifIter      = "cosmossdk.io/store/types.Iterator"
	ifCoreIter  = "cosmossdk.io/core/store.Iterator"
)

func bnil() *Term { return T(SBytes, "bnil") }

func registerStoreModels() {
	aStore := func(m *Machine) {
		m.E.Assume("A-STORE", "the module KV store is an array key -> value (absent = nil); Get/Set/Delete/Has never return errors; Set panics on a nil value")
		m.E.declKeys()
	}
	invokeModels[ifKVService+".OpenKVStore"] = func(m *Machine, _ *Frame, _ *ssa.CallCommon, a []Val) Val { aStore(m); return &OpaqueV{Tag: "kvcore"} }
	models["github.com/cosmos/cosmos-sdk/runtime.KVStoreAdapter"] = func(m *Machine, _ *Frame, _ *ssa.CallCommon, a []Val) Val { aStore(m); return &OpaqueV{Tag: "kvadapter"} }
	get := func(withErr bool) ModelFn {
		return func(m *Machine, _ *Frame, _ *ssa.CallCommon, a []Val) Val {
			aStore(m)
			v := Select(m.S(), term(a[1]))
			m.ghostOnRead(term(a[1]))
			if withErr {
				return &TupleV{Vs: []Val{v, IntLit(0)}}
			}
			return v
		}
	}
	set := func(withErr bool) ModelFn {
		return func(m *Machine, _ *Frame, _ *ssa.CallCommon, a []Val) Val {
			aStore(m)
			m.safeSite("setnil", Neq(term(a[2]), bnil()), "KVStore.Set panics on a nil value")
			m.writeStore(term(a[1]), term(a[2]))
			if withErr {
				return IntLit(0)
			}
			return &TupleV{}
		}
	}
	del := func(withErr bool) ModelFn {
		return func(m *Machine, _ *Frame, _ *ssa.CallCommon, a []Val) Val {
			aStore(m)
			m.writeStore(term(a[1]), bnil())
			if withErr {
				return IntLit(0)
			}
			return &TupleV{}
		}
	}
	has := func(withErr bool) ModelFn {
		return func(m *Machine, _ *Frame, _ *ssa.CallCommon, a []Val) Val {
			aStore(m)
			v := Neq(Select(m.S(), term(a[1])), bnil())
			if withErr {
				return &TupleV{Vs: []Val{v, IntLit(0)}}
			}
			return v
		}
	}
	for _, k := range []string{"kvcore", ifCoreKV} {
		invokeModels[k+".Get"] = get(true)
		invokeModels[k+".Set"] = set(true)
		invokeModels[k+".Delete"] = del(true)
		invokeModels[k+".Has"] = has(true)
		invokeModels[k+".Iterator"] = func(m *Machine, _ *Frame, _ *ssa.CallCommon, a []Val) Val {
			aStore(m)
			return &TupleV{Vs: []Val{m.newIter("range", func(k *Term) *Term { return App(SBool, "krange", k, term(a[1]), term(a[2])) }), IntLit(0)}}
		}
	}
	for _, k := range []string{"kvadapter", ifKV} {
		invokeModels[k+".Get"] = get(false)
		invokeModels[k+".Set"] = set(false)
		invokeModels[k+".Delete"] = del(false)
		invokeModels[k+".Has"] = has(false)
		invokeModels[k+".Iterator"] = func(m *Machine, _ *Frame, _ *ssa.CallCommon, a []Val) Val {
			aStore(m)
			return m.newIter("range", func(k *Term) *Term { return App(SBool, "krange", k, term(a[1]), term(a[2])) })
		}
	}
	models[pkgStoreT+".KVStorePrefixIterator"] = func(m *Machine, _ *Frame, _ *ssa.CallCommon, a []Val) Val {
		aStore(m)
		p := term(a[1])
		return m.newIter("prefix", func(k *Term) *Term { return App(SBool, "pfx", k, p) })
	}
	// prefix.NewStore(parent, p): a view of the keys with prefix p; its iterators hand out the keys with the prefix stripped
	models["cosmossdk.io/store/prefix.NewStore"] = func(m *Machine, _ *Frame, _ *ssa.CallCommon, a []Val) Val {
		aStore(m)
		m.E.Assume("A-PREFIXSTORE", "store/prefix.Store over the module store: Iterator(nil, nil) enumerates exactly the present keys with the prefix, ascending (ReverseIterator descending), and hands out each key with the prefix removed (kstrip); a non-nil start/end bound selects an unspecified subset")
		return &OpaqueV{Tag: "prefixstore", X: term(a[1])}
	}
	pfxIter := func(reverse bool) ModelFn {
		return func(m *Machine, _ *Frame, _ *ssa.CallCommon, a []Val) Val {
			var p *Term
			switch r := a[0].(type) {
			case *OpaqueV:
				p = r.X.(*Term)
			case *IfaceV:
				p = r.V.(*OpaqueV).X.(*Term)
			}
			D := m.E.D
			D.Fun("kstrip", []Sort{SBytes, SBytes}, SBytes)
			D.Fun("kbound", []Sort{SBytes, SBytes, SBytes}, SBool)
			D.Axiom("(forall ((x Bytes)) (! (kbound x bnil bnil) :pattern ((kbound x bnil bnil))))")
			lo, hi := bytesOrNil(a[1]), bytesOrNil(a[2])
			it := m.newIterOrd("prefixstore", func(k *Term) *Term {
				return And(App(SBool, "pfx", k, p), App(SBool, "kbound", App(SBytes, "kstrip", p, k), lo, hi))
			}, reverse)
			st := m.Heap[it.(*IterV).Cell].(*IterState)
			ns := *st
			ns.Strip = p
			m.Heap[it.(*IterV).Cell] = &ns
			return it
		}
	}
	invokeModels["prefixstore.Iterator"] = pfxIter(false)
	invokeModels["prefixstore.ReverseIterator"] = pfxIter(true)
	models[pkgStoreT+".PrefixEndBytes"] = func(m *Machine, _ *Frame, _ *ssa.CallCommon, a []Val) Val {
		aStore(m)
		m.E.D.Fun("pfxend", []Sort{SBytes}, SBytes)
		m.E.Assume("A-KEYS", "store keys are read algebraically (see keymodel.go); PrefixEndBytes(p) is the least key greater than every key with prefix p")
		m.E.D.Axiom("(forall ((k Bytes) (t Int)) (! (= (krange k g_UndelegationQueueKey (pfxend (pUndelQByTime t))) (and (= (ktag k) 8) (<= (kUndelQ_1 k) t))) :pattern ((krange k g_UndelegationQueueKey (pfxend (pUndelQByTime t))))))")
		m.E.D.Axiom("(forall ((k Bytes) (t Int)) (! (= (krange k g_RedelegationQueueKey (pfxend (kRedelQ t))) (and (= (ktag k) 7) (<= (kRedelQ_1 k) t))) :pattern ((krange k g_RedelegationQueueKey (pfxend (kRedelQ t))))))")
		return App(SBytes, "pfxend", term(a[0]))
	}
	models[pkgStoreT+".InclusiveEndBytes"] = func(m *Machine, _ *Frame, _ *ssa.CallCommon, a []Val) Val {
		aStore(m)
		m.E.declKeys()
		m.E.D.Fun("inclend", []Sort{SBytes}, SBytes)
		m.E.Assume("A-KEYS", "store keys are read algebraically (see keymodel.go); InclusiveEndBytes(k) is the least key greater than k: a range ending there includes k itself")
		m.E.D.Axiom("(forall ((k Bytes) (t Int)) (! (= (krange k g_RedelegationQueueKey (inclend (kRedelQ t))) (and (= (ktag k) 7) (<= (kRedelQ_1 k) t))) :pattern ((krange k g_RedelegationQueueKey (inclend (kRedelQ t))))))")
		return App(SBytes, "inclend", term(a[0]))
	}
	models["bytes.HasSuffix"] = func(m *Machine, _ *Frame, _ *ssa.CallCommon, a []Val) Val {
		aStore(m)
		return App(SBool, "sfx", term(a[0]), term(a[1]))
	}
	models["bytes.HasPrefix"] = func(m *Machine, _ *Frame, _ *ssa.CallCommon, a []Val) Val {
		aStore(m)
		return App(SBool, "pfx", term(a[0]), term(a[1]))
	}
}

// writeStore is the single place where the module store changes; ghost sums hook in here.
func (m *Machine) writeStore(k, v *Term) {
	old := m.S()
	m.SetG("S", Store(old, k, v))
	m.ghostOnWrite(old, k, v)
}

// newIter creates a snapshot iterator over the keys of the current store that satisfy match (A-ITER).
func (m *Machine) newIter(kind string, match func(k *Term) *Term) Val {
	return m.newIterOrd(kind, match, false)
}

func bytesOrNil(v Val) *Term {
	if _, ok := v.(*NilV); ok {
		return bnil()
	}
	return term(v)
}

func (m *Machine) newIterOrd(kind string, match func(k *Term) *Term, reverse bool) Val {
	E := m.E
	E.Assume("A-ITER", "store iterators enumerate, in ascending byte order and exactly once each, the keys present at creation time that lie in the prefix/range (cachekv snapshot semantics); Close is dropped")
	snap := m.S()
	keys := E.D.Fresh("itkeys", ArrSort(SInt, SBytes))
	n := E.D.Fresh("itn", SInt)
	idx := E.D.FreshName("itidx")
	E.D.Fun(idx, []Sort{SBytes}, SInt)
	m.AssumeT(Ge(n, IntLit(0)))
	kj := T(SBytes, fmt.Sprintf("(select %s j)", keys.S))
	// soundness: every enumerated key is present and in range, and the index function inverts the enumeration
	m.AssumeT(T(SBool, fmt.Sprintf("(forall ((j Int)) (! (=> (and (<= 0 j) (< j %s)) (and (not (= (select %s %s) bnil)) %s (= (%s %s) j))) :pattern ((select %s j))))",
		n.S, snap.S, kj.S, match(kj).S, idx, kj.S, keys.S)))
	// completeness: every present key in range is enumerated
	kk := T(SBytes, "k")
	m.AssumeT(T(SBool, fmt.Sprintf("(forall ((k Bytes)) (! (=> (and (not (= (select %s k) bnil)) %s) (and (<= 0 (%s k)) (< (%s k) %s) (= (select %s (%s k)) k))) :pattern ((%s k)) :pattern ((select %s k))))",
		snap.S, match(kk).S, idx, idx, n.S, keys.S, idx, idx, snap.S)))
	// ascending order (descending for a reverse iterator)
	if reverse {
		m.AssumeT(T(SBool, fmt.Sprintf("(forall ((i Int) (j Int)) (! (=> (and (<= 0 i) (< i j) (< j %s)) (klt (select %s j) (select %s i))) :pattern ((select %s i) (select %s j))))",
			n.S, keys.S, keys.S, keys.S, keys.S)))
	} else {
		m.AssumeT(T(SBool, fmt.Sprintf("(forall ((i Int) (j Int)) (! (=> (and (<= 0 i) (< i j) (< j %s)) (klt (select %s i) (select %s j))) :pattern ((select %s i) (select %s j))))",
			n.S, keys.S, keys.S, keys.S, keys.S)))
	}
	st := &IterState{Snap: snap, Keys: keys, N: n, Pos: IntLit(0), Idx: idx, Kind: kind, Match: match}
	id := m.NewCell(st)
	return &IterV{Cell: id}
}

func (m *Machine) iterMethod(it *IterV, meth string, args []Val) Val {
	st := m.Heap[it.Cell].(*IterState)
	switch meth {
	case "Valid":
		return Lt(st.Pos, st.N)
	case "Next":
		m.safeSite("iternext", Lt(st.Pos, st.N), "Iterator.Next panics when the iterator is not valid")
		ns := *st
		ns.Pos = Add(st.Pos, IntLit(1))
		m.Heap[it.Cell] = &ns
		if m.W != nil {
			m.W.Cells[it.Cell] = true
		}
		return &TupleV{}
	case "Key":
		m.safeSite("iterkey", Lt(st.Pos, st.N), "Iterator.Key panics when the iterator is not valid")
		if st.Strip != nil {
			return App(SBytes, "kstrip", st.Strip, Select(st.Keys, st.Pos))
		}
		return Select(st.Keys, st.Pos)
	case "Value":
		m.safeSite("iterval", Lt(st.Pos, st.N), "Iterator.Value panics when the iterator is not valid")
		m.ghostOnRead(Select(st.Keys, st.Pos))
		return Select(st.Snap, Select(st.Keys, st.Pos))
	case "Close":
		return IntLit(0)
	case "Error":
		return IntLit(0)
	}
	panic(unsupported("iterator method " + meth))
}

// ---------------- codec ----------------

const ifCodec = "github.com/cosmos/cosmos-sdk/codec.BinaryCodec"

func (E *Engine) declCodec(t types.Type) (mar string, unm []string, isenc string) {
	name := shortType(t)
	ls := leavesOf(t)
	mar = "mar_" + name
	isenc = "isenc_" + name
	var sorts []Sort
	var vars, names []string
	for i, l := range ls {
		sorts = append(sorts, l.Sort)
		vars = append(vars, fmt.Sprintf("(x%d %s)", i, l.Sort))
		names = append(names, fmt.Sprintf("x%d", i))
	}
	E.D.Fun(mar, sorts, SBytes)
	E.D.Fun(isenc, []Sort{SBytes}, SBool)
	app := "(" + mar + " " + strings.Join(names, " ") + ")"
	conj := []string{fmt.Sprintf("(%s %s)", isenc, app), fmt.Sprintf("(not (= %s bnil))", app)}
	for i, l := range ls {
		u := fmt.Sprintf("unm_%s_%d", name, i)
		unm = append(unm, u)
		E.D.Fun(u, []Sort{SBytes}, l.Sort)
		conj = append(conj, fmt.Sprintf("(= (%s %s) x%d)", u, app, i))
		if strings.HasSuffix(l.Path, "#len") {
			// decoded slices have non-negative length
			E.D.Axiom(fmt.Sprintf("(forall ((b Bytes)) (! (>= (%s b) 0) :pattern ((%s b))))", u, u))
		}
	}
	guard := []string{"true"}
	for i, l := range ls {
		if strings.HasSuffix(l.Path, "#len") {
			guard = append(guard, fmt.Sprintf("(>= x%d 0)", i))
		}
	}
	E.D.Axiom(fmt.Sprintf("(forall (%s) (! (=> (and %s) (and %s)) :pattern (%s)))", strings.Join(vars, " "), strings.Join(guard, " "), strings.Join(conj, " "), app))
	E.Assume("A-CODEC", "cdc.MustMarshal/MustUnmarshal are per-type mutually inverse (Unmarshal(Marshal(x)) = x); Must* panic only on bytes that are not an encoding of the type")
	return
}

// unmarshalInto builds the value of type t decoded from bytes b.
func (m *Machine) decode(t types.Type, b *Term) Val {
	_, unm, _ := m.E.declCodec(t)
	var leaves []*Term
	for i, l := range leavesOf(t) {
		leaves = append(leaves, App(l.Sort, unm[i], b))
	}
	return m.unflatten(leaves, t)
}

func (m *Machine) encode(t types.Type, v Val) *Term {
	mar, _, _ := m.E.declCodec(t)
	return App(SBytes, mar, m.flatten(v, t)...)
}

func protoTarget(v Val) (Val, types.Type) {
	iv, ok := v.(*IfaceV)
	if !ok {
		panic(unsupported(fmt.Sprintf("codec argument is %T", v)))
	}
	pt, ok := iv.Dyn.Underlying().(*types.Pointer)
	if !ok {
		panic(unsupported("codec argument is not a pointer"))
	}
	return iv.V, pt.Elem()
}

func registerCodecModels() {
	invokeModels[ifCodec+".MustMarshal"] = func(m *Machine, _ *Frame, _ *ssa.CallCommon, a []Val) Val {
		p, t := protoTarget(a[1])
		return m.encode(t, m.Load(p))
	}
	invokeModels[ifCodec+".MustUnmarshal"] = func(m *Machine, _ *Frame, _ *ssa.CallCommon, a []Val) Val {
		p, t := protoTarget(a[2])
		_, _, isenc := m.E.declCodec(t)
		b := term(a[1])
		m.E.Assume("A-WFSTORE", "bytes handed to MustUnmarshal decode as the requested type: every store value was written by MustMarshal of the type that belongs to its key family (store well-formedness, by construction of the write sites)")
		m.AssumeT(App(SBool, isenc, b))
		m.StoreTo(p, m.decode(t, b))
		return &TupleV{}
	}
	invokeModels[ifCodec+".Unmarshal"] = func(m *Machine, _ *Frame, _ *ssa.CallCommon, a []Val) Val {
		p, t := protoTarget(a[2])
		_, _, isenc := m.E.declCodec(t)
		b := term(a[1])
		ok := App(SBool, isenc, b)
		// on failure the target is left in an unspecified state
		dec := m.decode(t, b)
		m.StoreTo(p, dec)
		return Ite(ok, IntLit(0), m.errSym("unmarshal"))
	}
}

// ---------------- keepers ----------------

const (
	ifBank  = modPath + "/x/alliance/types.BankKeeper"
	ifStake = modPath + "/x/alliance/types.StakingKeeper"
	ifDistr = modPath + "/x/alliance/types.DistributionKeeper"
	ifAcct  = modPath + "/x/alliance/types.AccountKeeper"
)

func (E *Engine) moduleAddr(name *Term) *Term {
	E.D.Fun("modaddr", []Sort{SStr}, SBytes)
	E.D.Fun("modname", []Sort{SBytes}, SStr)
	E.D.Fun("ismod", []Sort{SBytes}, SBool)
	E.D.Axiom("(forall ((n Str)) (! (and (= (modname (modaddr n)) n) (ismod (modaddr n)) (not (= (modaddr n) bnil))) :pattern ((modaddr n))))")
	E.Assume("A-ACCT", "GetModuleAddress is an injective map from module names to non-nil addresses; the module accounts used here exist with the permissions configured in app.go (minter/burner for alliance, burner for bonded pool)")
	return App(SBytes, "modaddr", name)
}

func (m *Machine) bankSelect(acct, denom *Term) *Term { return Select(Select(m.Bank(), acct), denom) }

// sendCoins moves coins; returns the error term. userSender: sender may hold locked (vesting) coins.
func (m *Machine) sendCoins(from, to *Term, c *CoinsV, mayBlock bool, userSender bool) *Term {
	E := m.E
	E.D.Axiom("true")
	E.Assume("A-BANK", "x/bank: SendCoins* is all-or-nothing, moves exactly the listed amounts, fails iff the coins are invalid (a listed coin with amount <= 0), the sender's spendable balance is short, or (ModuleToAccount) the recipient is a blocked address; Mint/Burn change balance and supply by the amount; GetBalance reads the balance")
	bank := m.Bank()
	var ok *Term
	var nb *Term
	if c.IsSmall || len(c.Small) > 0 {
		conds := []*Term{}
		fromBal := Select(bank, from)
		for _, p := range c.Small {
			conds = append(conds, Ge(Select(fromBal, p.Denom), p.Amt))
			if c.Raw {
				conds = append(conds, Gt(p.Amt, IntLit(0)))
			}
			fromBal = Store(fromBal, p.Denom, Sub(Select(fromBal, p.Denom), p.Amt))
		}
		b1 := Store(bank, from, fromBal)
		toBal := Select(b1, to)
		for _, p := range c.Small {
			toBal = Store(toBal, p.Denom, Add(Select(toBal, p.Denom), p.Amt))
		}
		nb = Store(b1, to, toBal)
		ok = And(conds...)
	} else {
		m.Z3Ext = true
		fromBal := Select(bank, from)
		ok = T(SBool, fmt.Sprintf("(forall ((d Str)) (>= (select %s d) (select %s d)))", fromBal.S, c.M.S))
		nf := T(fromBal.Sort, fmt.Sprintf("((_ map (- (Int Int) Int)) %s %s)", fromBal.S, c.M.S))
		b1 := Store(bank, from, nf)
		toBal := Select(b1, to)
		nt := T(toBal.Sort, fmt.Sprintf("((_ map (+ (Int Int) Int)) %s %s)", toBal.S, c.M.S))
		nb = Store(b1, to, nt)
	}
	if mayBlock {
		E.D.Fun("blocked", []Sort{SBytes}, SBool)
		ok = And(ok, Not(App(SBool, "blocked", to)))
	}
	var errT *Term
	if userSender {
		// a user account may hold locked (vesting) coins: spendable(a) says it does not
		E.declSpendable()
		errT = Ite(And(ok, App(SBool, "spendable", from)), IntLit(0), IntLit(993))
	} else {
		errT = Ite(ok, IntLit(0), IntLit(999))
	}
	m.SetG("bank", T(bank.Sort, Ite(Eq(errT, IntLit(0)), nb, bank).S))
	return errT
}

func registerKeeperModels() {
	// account keeper
	invokeModels[ifAcct+".GetModuleAddress"] = func(m *Machine, _ *Frame, _ *ssa.CallCommon, a []Val) Val {
		return m.E.moduleAddr(term(a[1]))
	}
	// bank
	invokeModels[ifBank+".SendCoinsFromAccountToModule"] = func(m *Machine, _ *Frame, _ *ssa.CallCommon, a []Val) Val {
		return m.sendCoins(term(a[2]), m.E.moduleAddr(term(a[3])), m.asCoins(a[4]), false, true)
	}
	invokeModels[ifBank+".SendCoinsFromModuleToAccount"] = func(m *Machine, _ *Frame, _ *ssa.CallCommon, a []Val) Val {
		return m.sendCoins(m.E.moduleAddr(term(a[2])), term(a[3]), m.asCoins(a[4]), true, false)
	}
	invokeModels[ifBank+".SendCoinsFromModuleToModule"] = func(m *Machine, _ *Frame, _ *ssa.CallCommon, a []Val) Val {
		return m.sendCoins(m.E.moduleAddr(term(a[2])), m.E.moduleAddr(term(a[3])), m.asCoins(a[4]), false, false)
	}
	invokeModels[ifBank+".GetBalance"] = func(m *Machine, _ *Frame, _ *ssa.CallCommon, a []Val) Val {
		m.E.Assume("A-BANK", "x/bank: SendCoins* is all-or-nothing, moves exactly the listed amounts, fails iff the coins are invalid (a listed coin with amount <= 0), the sender's spendable balance is short, or (ModuleToAccount) the recipient is a blocked address; Mint/Burn change balance and supply by the amount; GetBalance reads the balance")
		return m.E.mkCoin(false, term(a[3]), m.bankSelect(term(a[2]), term(a[3])))
	}
	invokeModels[ifBank+".MintCoins"] = func(m *Machine, _ *Frame, _ *ssa.CallCommon, a []Val) Val {
		c := m.asCoins(a[3])
		acct := m.E.moduleAddr(term(a[2]))
		if !(c.IsSmall || len(c.Small) > 0) {
			panic(unsupported("MintCoins of symbolic coin list"))
		}
		bank, sup := m.Bank(), m.Supply()
		bal := Select(bank, acct)
		for _, p := range c.Small {
			bal = Store(bal, p.Denom, Add(Select(bal, p.Denom), p.Amt))
			sup = Store(sup, p.Denom, Add(Select(sup, p.Denom), p.Amt))
		}
		m.SetG("bank", Store(bank, acct, bal))
		m.SetG("supply", sup)
		led := m.GetG("minted", ghostSorts["minted"])
		row := Select(led, acct)
		for _, p := range c.Small {
			row = Store(row, p.Denom, Add(Select(row, p.Denom), p.Amt))
		}
		m.SetG("minted", Store(led, acct, row))
		return IntLit(0)
	}
	invokeModels[ifBank+".BurnCoins"] = func(m *Machine, _ *Frame, _ *ssa.CallCommon, a []Val) Val {
		c := m.asCoins(a[3])
		acct := m.E.moduleAddr(term(a[2]))
		if !(c.IsSmall || len(c.Small) > 0) {
			panic(unsupported("BurnCoins of symbolic coin list"))
		}
		bank, sup := m.Bank(), m.Supply()
		bal := Select(bank, acct)
		var conds []*Term
		for _, p := range c.Small {
			conds = append(conds, Ge(Select(bal, p.Denom), p.Amt))
			bal = Store(bal, p.Denom, Sub(Select(bal, p.Denom), p.Amt))
			sup = Store(sup, p.Denom, Sub(Select(sup, p.Denom), p.Amt))
		}
		ok := And(conds...)
		m.SetG("bank", Ite(ok, Store(bank, acct, bal), bank))
		m.SetG("supply", Ite(ok, sup, m.Supply()))
		led := m.GetG("burned", ghostSorts["burned"])
		row := Select(led, acct)
		for _, p := range c.Small {
			row = Store(row, p.Denom, Add(Select(row, p.Denom), p.Amt))
		}
		m.SetG("burned", Ite(ok, Store(led, acct, row), led))
		return Ite(ok, IntLit(0), IntLit(998))
	}
}

// declSpendable: spendable(a) = the account holds no locked (vesting) coins; module accounts never do.
func (E *Engine) declSpendable() {
	E.D.Fun("spendable", []Sort{SBytes}, SBool)
	E.D.Fun("modaddr", []Sort{SStr}, SBytes)
	E.D.Axiom("(forall ((n Str)) (! (spendable (modaddr n)) :pattern ((modaddr n))))")
}
