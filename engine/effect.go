package main

import (
	"fmt"
	"go/constant"
	"go/token"
	"go/types"
	"os"
	"path/filepath"
	"sort"
	"strings"
	"time"

	"golang.org/x/tools/go/ssa"
)

// C19: effect contract "deterministic and no hidden state", checked modularly on the SSA of every function
// of the module's non-generated source (DESIGN.md section 7, C19). One obligation det:<rule>:<func> per
// function and rule; a finding names the instruction.

type effectFinding struct {
	Func string
	Rule string
	Pos  string
	Msg  string
}

var denyCalls = []string{
	"time.Now", "time.Since", "time.Until", "time.After", "time.Tick", "time.NewTimer", "time.NewTicker", "time.Sleep",
	"math/rand.", "math/rand/v2.", "crypto/rand.", "os.", "runtime.", "reflect.", "unsafe.", "syscall.",
	"golang.org/x/exp/maps.Keys", "golang.org/x/exp/maps.Values", "maps.Keys", "maps.Values",
	"sync/atomic.", "os/exec.", "net.", "net/http.",
}

var mutatorMethods = map[string]bool{
	"Set": true, "Delete": true, "SendCoinsFromModuleToModule": true, "SendCoinsFromAccountToModule": true,
	"SendCoinsFromModuleToAccount": true, "MintCoins": true, "BurnCoins": true, "Delegate": true, "Unbond": true,
	"BeginRedelegation": true, "RemoveRedelegation": true, "RemoveValidatorTokensAndShares": true, "RemoveValidatorTokens": true,
	"WithdrawDelegationRewards": true, "SendCoins": true, "SetParams": true,
}

var printfLike = map[string]int{ // function -> index of the format argument
	"fmt.Sprintf": 0, "fmt.Errorf": 0, "fmt.Fprintf": 1, "fmt.Printf": 0,
	"cosmossdk.io/errors.Wrapf": 1, "(*cosmossdk.io/errors.Error).Wrapf": 1,
	"google.golang.org/grpc/status.Errorf": 1, "google.golang.org/grpc/status.Newf": 1,
}

func isGeneratedFile(name string) bool {
	return strings.HasSuffix(name, ".pb.go") || strings.HasSuffix(name, ".pb.gw.go") || strings.HasSuffix(name, "_test.go")
}

func (P *Program) moduleFunctions() []*ssa.Function {
	var out []*ssa.Function
	seen := map[*ssa.Function]bool{}
	var add func(fn *ssa.Function)
	add = func(fn *ssa.Function) {
		if fn == nil || seen[fn] || fn.Blocks == nil {
			return
		}
		seen[fn] = true
		pos := P.Fset.Position(fn.Pos())
		if pos.Filename != "" && isGeneratedFile(pos.Filename) {
			return
		}
		if fn.Synthetic != "" && fn.Parent() == nil {
			return
		}
		out = append(out, fn)
		for _, an := range fn.AnonFuncs {
			add(an)
		}
	}
	var names []string
	for n := range P.Funcs {
		names = append(names, n)
	}
	sort.Strings(names)
	for _, n := range names {
		add(P.Funcs[n])
	}
	// package init functions (package-level var initialisers run here)
	for _, sp := range P.SSA {
		if f := sp.Func("init"); f != nil {
			_ = f
		}
	}
	return out
}

func effectName(fn *ssa.Function) string {
	if fn.Parent() != nil {
		return effectName(fn.Parent()) + "$" + fn.Name()
	}
	return FuncName(fn)
}

func implementsMethod(t types.Type, name string, nparams int) bool {
	for _, tt := range []types.Type{t, types.NewPointer(t)} {
		ms := types.NewMethodSet(tt)
		for i := 0; i < ms.Len(); i++ {
			m := ms.At(i)
			if m.Obj().Name() == name {
				if sig, ok := m.Type().(*types.Signature); ok && sig.Params().Len() == nparams {
					if tt == t {
						return true
					}
					// pointer-receiver methods are not found on a value passed to fmt
					if _, isPtr := t.(*types.Pointer); isPtr {
						return true
					}
				}
			}
		}
	}
	return false
}

// containsAddress: printing a value of type t with a verb that walks its structure shows a memory address.
func containsAddress(t types.Type, depth int, seen map[types.Type]bool) bool {
	if seen[t] {
		return false
	}
	seen[t] = true
	switch u := t.Underlying().(type) {
	case *types.Pointer:
		if depth == 0 {
			if _, ok := u.Elem().Underlying().(*types.Struct); ok {
				return containsAddress(u.Elem(), 1, seen) // &{...}: fields are walked
			}
		}
		return true
	case *types.Chan, *types.Signature:
		return true
	case *types.Basic:
		return u.Kind() == types.UnsafePointer || u.Kind() == types.Uintptr
	case *types.Struct:
		for i := 0; i < u.NumFields(); i++ {
			if containsAddress(u.Field(i).Type(), depth+1, seen) {
				return true
			}
		}
	case *types.Array:
		return containsAddress(u.Elem(), depth+1, seen)
	case *types.Slice:
		return containsAddress(u.Elem(), depth+1, seen)
	case *types.Map:
		return containsAddress(u.Key(), depth+1, seen) || containsAddress(u.Elem(), depth+1, seen)
	}
	return false
}

func verbLeaks(t types.Type, verb byte) bool {
	if _, isIface := t.Underlying().(*types.Interface); isIface {
		return verb == 'p'
	}
	if verb == 'p' {
		return true
	}
	if verb == 'T' || verb == '%' {
		return false
	}
	if implementsMethod(t, "Format", 2) {
		return false
	}
	switch verb {
	case 's', 'q', 'v', 'x', 'X':
		if implementsMethod(t, "Error", 0) || implementsMethod(t, "String", 0) {
			return false
		}
	}
	return containsAddress(t, 0, map[types.Type]bool{})
}

func parseVerbs(format string) []byte {
	var out []byte
	for i := 0; i < len(format); i++ {
		if format[i] != '%' {
			continue
		}
		i++
		for i < len(format) && strings.ContainsRune("+-# 0123456789.*[]", rune(format[i])) {
			i++
		}
		if i < len(format) {
			if format[i] != '%' {
				out = append(out, format[i])
			}
		}
	}
	return out
}

// variadicArgs recovers the values stored into the []any built for a variadic call.
func variadicArgs(v ssa.Value) ([]ssa.Value, bool) {
	sl, ok := v.(*ssa.Slice)
	if !ok {
		if c, isC := v.(*ssa.Const); isC && c.Value == nil {
			return nil, true
		}
		return nil, false
	}
	al, ok := sl.X.(*ssa.Alloc)
	if !ok {
		return nil, false
	}
	arr, ok := al.Type().(*types.Pointer).Elem().Underlying().(*types.Array)
	if !ok {
		return nil, false
	}
	out := make([]ssa.Value, arr.Len())
	for _, ref := range *al.Referrers() {
		ia, ok := ref.(*ssa.IndexAddr)
		if !ok {
			continue
		}
		c, ok := ia.Index.(*ssa.Const)
		if !ok {
			return nil, false
		}
		idx, _ := constant.Int64Val(c.Value)
		for _, r2 := range *ia.Referrers() {
			if st, ok := r2.(*ssa.Store); ok && st.Addr == ia {
				out[idx] = st.Val
			}
		}
	}
	return out, true
}

func (P *Program) effectCheck() (funcs []*ssa.Function, findings []effectFinding, writers map[*ssa.Function]bool) {
	funcs = P.moduleFunctions()
	// writers: functions that (transitively) mutate module/bank/staking state
	writers = map[*ssa.Function]bool{}
	calls := map[*ssa.Function][]*ssa.Function{}
	for _, fn := range funcs {
		for _, b := range fn.Blocks {
			for _, ins := range b.Instrs {
				var cc *ssa.CallCommon
				switch x := ins.(type) {
				case *ssa.Call:
					cc = &x.Call
				case *ssa.Defer:
					cc = &x.Call
				case *ssa.Go:
					cc = &x.Call
				case *ssa.MakeClosure:
					if c, ok := x.Fn.(*ssa.Function); ok {
						calls[fn] = append(calls[fn], c)
					}
				}
				if cc == nil {
					continue
				}
				if cc.IsInvoke() {
					if mutatorMethods[cc.Method.Name()] {
						writers[fn] = true
					}
					continue
				}
				if callee := cc.StaticCallee(); callee != nil {
					if isModuleFn(callee) || (callee.Parent() != nil) {
						calls[fn] = append(calls[fn], callee)
					} else if callee.Signature.Recv() != nil && mutatorMethods[callee.Name()] && strings.Contains(callee.String(), "keeper") {
						writers[fn] = true
					}
				}
			}
		}
	}
	for changed := true; changed; {
		changed = false
		for _, fn := range funcs {
			if writers[fn] {
				continue
			}
			for _, c := range calls[fn] {
				if writers[c] {
					writers[fn] = true
					changed = true
					break
				}
			}
		}
	}
	add := func(fn *ssa.Function, rule string, pos token.Pos, msg string) {
		findings = append(findings, effectFinding{Func: effectName(fn), Rule: rule, Pos: P.Fset.Position(pos).String(), Msg: msg})
	}
	for _, fn := range funcs {
		isInit := fn.Name() == "init" || strings.HasPrefix(fn.Name(), "init#")
		// is fn (or an enclosing function) a writer?  map ranges are tolerated only in read-only code
		for _, b := range fn.Blocks {
			for _, ins := range b.Instrs {
				switch x := ins.(type) {
				case *ssa.Go:
					add(fn, "goroutine", x.Pos(), "go statement")
				case *ssa.Select:
					add(fn, "channel", x.Pos(), "select statement")
				case *ssa.Send:
					add(fn, "channel", x.Pos(), "channel send")
				case *ssa.MakeChan:
					add(fn, "channel", x.Pos(), "make(chan)")
				case *ssa.UnOp:
					if x.Op == token.ARROW {
						add(fn, "channel", x.Pos(), "channel receive")
					}
				case *ssa.Range:
					if _, isMap := x.X.Type().Underlying().(*types.Map); isMap {
						root := fn
						for root.Parent() != nil {
							root = root.Parent()
						}
						if writers[fn] || writers[root] || !strings.HasPrefix(effectName(root), "alliance.") || !strings.Contains(effectName(root), "Invariant") {
							add(fn, "maprange", x.Pos(), "range over a map (iteration order is randomised) outside the read-only invariant checkers")
						}
					}
				case *ssa.Convert:
					if b, ok := x.Type().Underlying().(*types.Basic); ok && (b.Kind() == types.Uintptr || b.Kind() == types.UnsafePointer) {
						add(fn, "address", x.Pos(), "conversion to uintptr/unsafe.Pointer")
					}
					if b, ok := x.X.Type().Underlying().(*types.Basic); ok && b.Kind() == types.UnsafePointer {
						add(fn, "address", x.Pos(), "conversion from unsafe.Pointer")
					}
				case *ssa.Store:
					if !isInit {
						if g := rootGlobal(x.Addr); g != nil {
							add(fn, "global", x.Pos(), "store to package-level variable "+g.Name()+" (hidden state)")
						}
					}
				case *ssa.Call:
					cc := &x.Call
					callee := cc.StaticCallee()
					if callee == nil {
						continue
					}
					full := callee.String()
					for _, d := range denyCalls {
						if full == d || strings.HasPrefix(full, d+"[") || (strings.HasSuffix(d, ".") && strings.HasPrefix(full, d)) || (strings.HasSuffix(d, ".") && strings.HasPrefix(full, "("+d)) || (strings.HasSuffix(d, ".") && strings.HasPrefix(full, "(*"+d)) {
							add(fn, "nondet-call", x.Pos(), "call of "+full)
						}
					}
					if fi, ok := printfLike[full]; ok && fi < len(cc.Args) {
						fc, ok := cc.Args[fi].(*ssa.Const)
						if !ok || fc.Value == nil || fc.Value.Kind() != constant.String {
							continue
						}
						verbs := parseVerbs(constant.StringVal(fc.Value))
						vargs, ok := variadicArgs(cc.Args[len(cc.Args)-1])
						if !ok {
							continue
						}
						for i, vb := range verbs {
							if i >= len(vargs) || vargs[i] == nil {
								break
							}
							t := vargs[i].Type()
							if mi, ok := vargs[i].(*ssa.MakeInterface); ok {
								t = mi.X.Type()
							}
							if verbLeaks(t, vb) {
								add(fn, "address", x.Pos(), fmt.Sprintf("%%%c applied to %s prints a memory address (type has no fmt.Formatter/Stringer for this verb)", vb, typeKey(t)))
							}
						}
					}
				}
			}
		}
	}
	return
}

func rootGlobal(v ssa.Value) *ssa.Global {
	for {
		switch x := v.(type) {
		case *ssa.Global:
			return x
		case *ssa.FieldAddr:
			v = x.X
		case *ssa.IndexAddr:
			v = x.X
		default:
			return nil
		}
	}
}

func runEffectCheck(root, tier string, seed int, evPath string) int {
	t0 := time.Now()
	prop := "C19"
	vd := verifDir()
	P, err := Load(root)
	if err != nil {
		fmt.Println("gvc: cannot load /repo:", err)
		dir := filepath.Join(vd, "replays", prop)
		os.MkdirAll(dir, 0o755)
		path := filepath.Join(dir, "load.json")
		jsonOut(path, map[string]interface{}{"property": prop, "obligation": "load", "detail": err.Error()})
		fmt.Printf("VIOLATION property=%s replay=%s obligation=load (the repository does not load) no-failing-input-found\n", prop, path)
		return 1
	}
	funcs, findings, writers := P.effectCheck()
	rules := []string{"goroutine", "channel", "maprange", "address", "global", "nondet-call"}
	nObl := len(funcs) * len(rules)
	bad := map[string]bool{}
	for _, f := range findings {
		bad[f.Func+":"+f.Rule] = true
	}
	known := loadKnown()
	violations := 0
	var lines []string
	var knownHit []string
	seenV := map[string]bool{}
	for _, f := range findings {
		name := "det:" + f.Rule + ":" + f.Func
		isK := false
		for _, k := range known {
			if k.Property == prop && k.Obligation == name && k.Status == "known" {
				isK = true
				fmt.Printf("KNOWN-FINDING: property=%s %s: %s\n", prop, name, k.What)
				knownHit = append(knownHit, name)
			}
		}
		if isK || seenV[name] {
			continue
		}
		seenV[name] = true
		violations++
		dir := filepath.Join(vd, "replays", prop)
		os.MkdirAll(dir, 0o755)
		path := filepath.Join(dir, sanitize(name)+".json")
		jsonOut(path, map[string]interface{}{"property": prop, "obligation": name, "position": f.Pos, "detail": f.Msg,
			"note": "static effect rule violated; no-failing-input-found: a static rule gives no input, the instruction is named instead"})
		lines = append(lines, fmt.Sprintf("VIOLATION property=%s replay=%s obligation=%s (%s at %s) no-failing-input-found", prop, path, name, f.Msg, f.Pos))
	}
	nw := 0
	for _, fn := range funcs {
		if writers[fn] {
			nw++
		}
	}
	var samples []interface{}
	for i, fn := range funcs {
		if i%40 == 0 {
			samples = append(samples, map[string]interface{}{"obligation": "det:*:" + effectName(fn), "instructions": countInstrs(fn), "state_writer": writers[fn]})
		}
	}
	ev := map[string]interface{}{
		"property_id": prop, "tier": tier, "seed": seed, "level": "proof",
		"coverage": map[string]interface{}{
			"obligations": nObl - len(knownHit), "discharged": nObl - len(bad),
			"checker_cmd":  "bin/gvc check C19 --tier " + tier,
			"trusted_base": []string{"A-DETDEPS: dependency functions not on the deny-list (time.Now/Since/Until, math/rand, crypto/rand, os, runtime, reflect, unsafe, maps.Keys/Values, sync/atomic, net) are deterministic", "go/ssa construction (golang.org/x/tools v0.29.0)", "gvc effect checker"},
			"samples":      samples,
			"functions_checked": len(funcs), "state_writing_functions": nw, "rules": rules,
			"explanation": "effect contract 'deterministic and no hidden state' per function: no goroutine/channel, no range over a map outside the read-only invariant checkers (their message text is diagnostic and excluded), no address-revealing conversion or format verb, no store to package-level variables outside init, no call on the deny-list. This is the static half of C19; replaying histories and comparing state bytes is a different technique and is not done.",
			"known_findings_hit": knownHit,
		},
		"assumptions": []string{"A-DETDEPS", "time comes only from ctx (BlockTime/BlockHeader), enforced by the deny-list on package time", "generated *.pb.go / *.pb.gw.go files and tests are out of scope"},
		"wall_s":      time.Since(t0).Seconds(),
		"violations":  violations,
	}
	jsonOut(evPath, ev)
	fmt.Printf("gvc check C19 (%s): %d functions, %d effect obligations, %d findings, %.1fs\n", tier, len(funcs), nObl, len(findings), time.Since(t0).Seconds())
	for _, l := range lines {
		fmt.Println(l)
	}
	if violations > 0 {
		return 1
	}
	return 0
}

func countInstrs(fn *ssa.Function) int {
	n := 0
	for _, b := range fn.Blocks {
		n += len(b.Instrs)
	}
	return n
}
