package main

import (
	"fmt"
	"go/types"
	"strings"

	"golang.org/x/tools/go/ssa"
)

// ---------------- coins ----------------

func coinSorts(dec bool) (amt Sort, arr Sort, sfx string) {
	if dec {
		return SDec, ArrSort(SStr, SDec), "D"
	}
	return SInt, ArrSort(SStr, SInt), "I"
}

func coinZero(dec bool) *Term {
	if dec {
		return DecInt(0)
	}
	return IntLit(0)
}

func (E *Engine) declCoinFuns(dec bool) {
	amt, arr, sfx := coinSorts(dec)
	_ = amt
	E.D.Fun("clen"+sfx, []Sort{arr}, SInt)
	E.D.Fun("cden"+sfx, []Sort{arr, SInt}, SStr)
	E.D.Fun("cidx"+sfx, []Sort{arr, SStr}, SInt)
	z := coinZero(dec).S
	E.D.Axiom(fmt.Sprintf("(forall ((m %s)) (! (>= (clen%s m) 0) :pattern ((clen%s m))))", arr, sfx, sfx))
	E.D.Axiom(fmt.Sprintf("(forall ((m %s) (i Int)) (! (=> (and (<= 0 i) (< i (clen%s m))) (and (not (= (select m (cden%s m i)) %s)) (= (cidx%s m (cden%s m i)) i))) :pattern ((cden%s m i))))", arr, sfx, sfx, z, sfx, sfx, sfx))
	E.D.Axiom(fmt.Sprintf("(forall ((m %s) (d Str)) (! (=> (not (= (select m d) %s)) (and (<= 0 (cidx%s m d)) (< (cidx%s m d) (clen%s m)) (= (cden%s m (cidx%s m d)) d))) :pattern ((cidx%s m d)) :pattern ((select m d) (clen%s m))))", arr, z, sfx, sfx, sfx, sfx, sfx, sfx, sfx))
	E.Assume("A-COINS", "sdk.Coins/sdk.DecCoins: a valid coin list (sorted, unique denoms, non-zero amounts) is determined by its denom->amount map; Add/Sub/AmountOf/IsZero/Empty/NewCoins/NewDecCoins act point-wise on the map; Sub and NewCoin panic on negative results")
}

func (E *Engine) emptyCoins(dec bool) *CoinsV {
	_, arr, _ := coinSorts(dec)
	return &CoinsV{Dec: dec, M: T(arr, fmt.Sprintf("((as const %s) %s)", arr, coinZero(dec).S)), IsSmall: true, Small: []CoinPair{}}
}

func (m *Machine) freshCoins(dec bool, hint string, valid bool) *CoinsV {
	_, arr, _ := coinSorts(dec)
	c := &CoinsV{Dec: dec, M: m.E.D.Fresh(hint+"_M", arr)}
	return c
}

func (m *Machine) coinsLen(c *CoinsV) *Term {
	if c.IsSmall {
		n := IntLit(0)
		for _, p := range c.Small {
			n = Add(n, Ite(Eq(p.Amt, coinZero(c.Dec)), IntLit(0), IntLit(1)))
		}
		return n
	}
	m.E.declCoinFuns(c.Dec)
	_, _, sfx := coinSorts(c.Dec)
	return App(SInt, "clen"+sfx, c.M)
}

func (m *Machine) coinsDenomAt(c *CoinsV, i *Term) *Term {
	m.E.declCoinFuns(c.Dec)
	_, _, sfx := coinSorts(c.Dec)
	return App(SStr, "cden"+sfx, c.M, i)
}

func (m *Machine) coinsElem(c *CoinsV, i *Term) Val {
	d := m.coinsDenomAt(c, i)
	return m.E.mkCoin(c.Dec, d, Select(c.M, d))
}

func (m *Machine) asCoins(v Val) *CoinsV {
	switch x := v.(type) {
	case *CoinsV:
		return x
	case *SeqV:
		dec := typeKey(x.Elem) == tDecCoin
		if x.Conc != nil {
			var pairs []CoinPair
			for _, e := range x.Conc {
				sv := e.(*StructV)
				pairs = append(pairs, CoinPair{sv.F[0].(*Term), sv.F[1].(*Term)})
			}
			return m.smallCoinsRaw(dec, pairs)
		}
	case *NilV:
		dec, _ := isCoinsType(x.Typ)
		return m.E.emptyCoins(dec)
	}
	panic(unsupported(fmt.Sprintf("asCoins on %T", v)))
}

// smallCoinsRaw: explicit list; later entries overwrite earlier ones with the same denom (callers that
// sanitise panic on duplicates, which the library models account for separately).
func (m *Machine) smallCoinsRaw(dec bool, pairs []CoinPair) *CoinsV {
	c := m.E.emptyCoins(dec)
	M := c.M
	for _, p := range pairs {
		M = Store(M, p.Denom, p.Amt)
	}
	return &CoinsV{Dec: dec, M: M, IsSmall: len(pairs) <= 1, Small: pairs, Raw: len(pairs) > 0}
}

var coinTypes = map[bool]types.Type{}

func (E *Engine) mkCoin(dec bool, denom, amt *Term) Val {
	t := coinTypes[dec]
	if t == nil {
		panic(unsupported("coin type not registered"))
	}
	return &StructV{Typ: t, F: []Val{denom, amt}}
}

// registerCoinTypes finds sdk.Coin / sdk.DecCoin in the loaded program.
func (E *Engine) registerCoinTypes() {
	for _, p := range E.P.Prog.AllPackages() {
		if p.Pkg.Path() == "github.com/cosmos/cosmos-sdk/types" {
			if c := p.Type("Coin"); c != nil {
				coinTypes[false] = c.Type()
			}
			if c := p.Type("DecCoin"); c != nil {
				coinTypes[true] = c.Type()
			}
		}
	}
}

// ---------------- generic sequences ----------------

func (m *Machine) asSeq(v Val, elem types.Type) *SeqV {
	switch x := v.(type) {
	case *SeqV:
		if x.Conc != nil && x.Leaves == nil {
			return m.concToSym(x)
		}
		return x
	case *NilV:
		return m.concToSym(&SeqV{Elem: elem, Len: IntLit(0), Conc: []Val{}, IsNil: True})
	}
	panic(unsupported(fmt.Sprintf("asSeq on %T", v)))
}

func (m *Machine) concToSym(x *SeqV) *SeqV {
	ls := seqLeaves(x.Elem)
	out := &SeqV{Elem: x.Elem, Len: IntLit(int64(len(x.Conc))), IsNil: x.IsNil}
	for _, l := range ls {
		out.Leaves = append(out.Leaves, m.E.D.Fresh("seq_"+l.Path, ArrSort(SInt, l.Sort)))
	}
	for i, e := range x.Conc {
		fl := m.flattenElem(e, x.Elem)
		for j := range ls {
			out.Leaves[j] = Store(out.Leaves[j], IntLit(int64(i)), fl[j])
		}
	}
	return out
}

func (m *Machine) flattenElem(e Val, elem types.Type) []*Term {
	if _, ok := elem.Underlying().(*types.Pointer); ok {
		return []*Term{m.ptrTerm(e)}
	}
	return m.flatten(e, elem)
}

func (m *Machine) seqElem(sq *SeqV, i *Term) Val {
	if sq.Conc != nil {
		if n, ok := isIntLit(i); ok && int(n.Int64()) < len(sq.Conc) && n.Sign() >= 0 {
			return sq.Conc[n.Int64()]
		}
		sq = m.concToSym(sq)
	}
	if p, ok := sq.Elem.Underlying().(*types.Pointer); ok {
		return &SymPtrV{P: Select(sq.Leaves[0], i), Root: p.Elem(), Elem: p.Elem()}
	}
	var leaves []*Term
	for _, a := range sq.Leaves {
		leaves = append(leaves, Select(a, i))
	}
	return m.unflatten(leaves, sq.Elem)
}

func (m *Machine) seqAppend(sq *SeqV, vals []Val) *SeqV {
	if sq.Conc != nil && sq.Leaves == nil {
		return &SeqV{Elem: sq.Elem, Len: IntLit(int64(len(sq.Conc) + len(vals))), Conc: append(append([]Val{}, sq.Conc...), vals...), IsNil: False}
	}
	out := &SeqV{Elem: sq.Elem, Len: sq.Len, Leaves: append([]*Term{}, sq.Leaves...), IsNil: False}
	for _, v := range vals {
		fl := m.flattenElem(v, sq.Elem)
		for j := range out.Leaves {
			out.Leaves[j] = Store(out.Leaves[j], out.Len, fl[j])
		}
		out.Len = Add(out.Len, IntLit(1))
	}
	return out
}

// seqValueLeaves: (len, per-leaf arrays of the element *values*) for (un)marshalling.
func (m *Machine) seqValueLeaves(sq *SeqV) []*Term {
	if sq.Conc != nil && sq.Leaves == nil {
		sq = m.concToSym(sq)
	}
	p, isPtr := sq.Elem.Underlying().(*types.Pointer)
	if !isPtr {
		return append([]*Term{sq.Len}, sq.Leaves...)
	}
	out := []*Term{sq.Len}
	for _, l := range leavesOf(p.Elem()) {
		h := m.heapArr(p.Elem(), l)
		a := m.E.D.Fresh("vals_"+l.Path, ArrSort(SInt, l.Sort))
		m.AssumeT(T(SBool, fmt.Sprintf("(forall ((i Int)) (! (=> (and (<= 0 i) (< i %s)) (= (select %s i) (select %s (select %s i)))) :pattern ((select %s i))))",
			sq.Len.S, a.S, h.S, sq.Leaves[0].S, a.S)))
		out = append(out, a)
	}
	return out
}

func (m *Machine) seqFromValueLeaves(elem types.Type, n *Term, arrs []*Term) *SeqV {
	p, isPtr := elem.Underlying().(*types.Pointer)
	if !isPtr {
		return &SeqV{Elem: elem, Len: n, Leaves: arrs, IsNil: False}
	}
	sq := &SeqV{Elem: elem, Len: n, IsNil: False}
	r := m.assumeFreshRegion(sq)
	for i, l := range leavesOf(p.Elem()) {
		h := m.heapArr(p.Elem(), l)
		m.AssumeT(T(SBool, fmt.Sprintf("(forall ((i Int)) (! (=> (and (<= 0 i) (< i %s)) (= (select %s (ptr %d i)) (select %s i))) :pattern ((ptr %d i))))",
			n.S, h.S, r, arrs[i].S, r)))
	}
	return sq
}

// ---------------- symbolic heap ----------------

func (E *Engine) declPtr() {
	E.D.Fun("ptr", []Sort{SInt, SInt}, SInt)
	E.D.Fun("ptr_r", []Sort{SInt}, SInt)
	E.D.Fun("ptr_i", []Sort{SInt}, SInt)
	E.D.Axiom("(forall ((r Int) (i Int)) (! (and (= (ptr_r (ptr r i)) r) (= (ptr_i (ptr r i)) i)) :pattern ((ptr r i))))")
}

var nregion int

func (m *Machine) assumeFreshRegion(sq *SeqV) int {
	m.E.declPtr()
	nregion++
	r := nregion
	pa := m.E.D.Fresh("ptrs", ArrSort(SInt, SInt))
	m.E.D.Axiom(fmt.Sprintf("(forall ((i Int)) (! (= (select %s i) (ptr %d i)) :pattern ((select %s i))))", pa.S, r, pa.S))
	sq.Leaves = []*Term{pa}
	return r
}

func heapName(t types.Type, l Leaf) string { return "H:" + shortType(t) + ":" + l.Path }

func (m *Machine) heapArr(t types.Type, l Leaf) *Term {
	return m.GetG(heapName(t, l), ArrSort(SInt, l.Sort))
}

func (m *Machine) loadSym(p *SymPtrV) Val {
	ls := leavesOf(p.Root)
	var leaves []*Term
	for _, l := range ls {
		leaves = append(leaves, Select(m.heapArr(p.Root, l), p.P))
	}
	root := m.unflatten(leaves, p.Root)
	return getPath(root, p.Path)
}

func (m *Machine) storeSym(p *SymPtrV, v Val) {
	ls := leavesOf(p.Root)
	var leaves []*Term
	for _, l := range ls {
		leaves = append(leaves, Select(m.heapArr(p.Root, l), p.P))
	}
	root := m.unflatten(leaves, p.Root)
	root = setPath(root, p.Path, v)
	nl := m.flatten(root, p.Root)
	for i, l := range ls {
		if nl[i].S == leaves[i].S {
			continue
		}
		m.SetG(heapName(p.Root, l), Store(m.heapArr(p.Root, l), p.P, nl[i]))
	}
}

// ptrTerm converts a pointer value to its SMT integer; a Go-side cell is flushed into the symbolic heap.
func (m *Machine) ptrTerm(v Val) *Term {
	switch x := v.(type) {
	case *SymPtrV:
		if len(x.Path) != 0 {
			panic(unsupported("interior symbolic pointer as value"))
		}
		return x.P
	case *PtrV:
		if len(x.Path) != 0 {
			panic(unsupported("interior pointer stored in a sequence"))
		}
		m.E.declPtr()
		pt := T(SInt, fmt.Sprintf("(ptr 0 %d)", x.Cell))
		// flush contents
		val := m.Heap[x.Cell]
		nl := m.flatten(val, x.Elem)
		for i, l := range leavesOf(x.Elem) {
			m.SetG(heapName(x.Elem, l), Store(m.heapArr(x.Elem, l), pt, nl[i]))
		}
		m.Heap[x.Cell] = &ForwardV{To: &SymPtrV{P: pt, Root: x.Elem, Elem: x.Elem}}
		m.assumeFreshPtr(pt, x.Cell)
		return pt
	}
	panic(unsupported(fmt.Sprintf("ptrTerm of %T", v)))
}

// ForwardV marks a Go-side cell whose contents now live in the symbolic heap.
type ForwardV struct{ To *SymPtrV }

// ---------------- element pointers (&s[i]) ----------------

func (m *Machine) loadElem(p *ElemPtrV) Val {
	var e Val
	switch s := p.Seq.(type) {
	case *SeqV:
		e = m.seqElem(s, p.Idx)
	case *CoinsV:
		e = m.coinsElem(s, p.Idx)
	}
	return getPath(e, p.Path)
}

func (m *Machine) storeElem(p *ElemPtrV, v Val) {
	// backing-array aliasing is not modelled. In a function that is only swept for panic-freedom (trusted contract + sweep) a store
	// through &slice[i] is over-approximated: every live sequence of the same element type may have changed content (lengths are kept).
	if m.Top != nil && m.Top.C != nil && (m.Top.C.Trusted && len(m.Top.C.Sweep) > 0 || m.Top.C.SliceHavoc) {
		sq, ok := p.Seq.(*SeqV)
		if !ok {
			panic(unsupported("store through &coins[i]"))
		}
		m.E.Assume("A-SLICE-HAVOC", "in functions swept for panic-freedom only, a store through &slice[i] havocs the contents (not the lengths) of every live slice of that element type: an over-approximation of backing-array aliasing")
		key := typeKey(sq.Elem)
		hv := func(v Val) Val {
			if s2, ok := v.(*SeqV); ok && typeKey(s2.Elem) == key {
				return m.havocSeqContent(s2)
			}
			// pointers into such a slice read the havocked contents from now on, too
			if ep, ok := v.(*ElemPtrV); ok {
				if s2, ok := ep.Seq.(*SeqV); ok && typeKey(s2.Elem) == key {
					return &ElemPtrV{Seq: m.havocSeqContent(s2), Idx: ep.Idx, Path: ep.Path, Owner: ep.Owner}
				}
			}
			return v
		}
		for c, hvv := range m.Heap {
			m.Heap[c] = hv(hvv)
			if m.W != nil && m.Heap[c] != hvv {
				m.W.Cells[c] = true
			}
		}
		for _, fr := range m.Frames {
			for k, ev := range fr.Env {
				fr.Env[k] = hv(ev)
			}
		}
		return
	}
	panic(unsupported("store through &slice[i] (backing-array aliasing is not modelled)"))
}

func (m *Machine) havocSeqContent(x *SeqV) *SeqV {
	src := x
	if src.Leaves == nil {
		src = m.concToSym(x)
	}
	n := &SeqV{Elem: x.Elem, Len: src.Len, IsNil: x.IsNil}
	for _, a := range src.Leaves {
		n.Leaves = append(n.Leaves, m.E.D.Fresh("aliased_arr", a.Sort))
	}
	return n
}

// ---------------- slices of arrays, append, len ----------------

func (m *Machine) sliceOp(f *Frame, x *ssa.Slice) Val {
	base := m.val(f, x.X)
	switch b := base.(type) {
	case *PtrV:
		// slicing a freshly allocated array: varargs or composite literal
		arr, ok := m.Load(b).(*ArrV)
		if !ok {
			panic(unsupported("slice of non-array pointer"))
		}
		if x.Low != nil || x.High != nil {
			panic(unsupported("sub-slice of array"))
		}
		st := x.Type().Underlying().(*types.Slice)
		if bt, ok := st.Elem().Underlying().(*types.Basic); ok && bt.Kind() == types.Uint8 {
			bs := make([]byte, len(arr.Elems))
			for i, e := range arr.Elems {
				n, ok := isIntLit(e.(*Term))
				if !ok {
					panic(unsupported("byte slice literal with symbolic content"))
				}
				bs[i] = byte(n.Int64())
			}
			return m.E.D.BytesLit(bs)
		}
		return &SeqV{Elem: st.Elem(), Len: IntLit(int64(len(arr.Elems))), Conc: append([]Val{}, arr.Elems...), IsNil: False}
	}
	panic(unsupported(fmt.Sprintf("slice op on %T in %s", base, f.Fn.Name())))
}

func (m *Machine) lenOf(v Val) *Term {
	switch x := v.(type) {
	case *SeqV:
		return x.Len
	case *CoinsV:
		return m.coinsLen(x)
	case *NilV:
		return IntLit(0)
	case *Term:
		if x.Sort == SBytes {
			m.E.D.Fun("blen", []Sort{SBytes}, SInt)
			m.E.D.Axiom("(forall ((b Bytes)) (! (>= (blen b) 0) :pattern ((blen b))))")
			m.E.D.Axiom("(= (blen bnil) 0)")
			return App(SInt, "blen", x)
		}
		if x.Sort == SStr {
			m.E.D.Fun("slen", []Sort{SStr}, SInt)
			m.E.D.Axiom("(forall ((s Str)) (! (>= (slen s) 0) :pattern ((slen s))))")
			m.E.D.Axiom(fmt.Sprintf("(forall ((s Str)) (! (= (= (slen s) 0) (= s %s)) :pattern ((slen s))))", m.E.D.StrLit("").S))
			return App(SInt, "slen", x)
		}
	}
	panic(unsupported(fmt.Sprintf("len of %T", v)))
}

func (m *Machine) appendOp(f *Frame, call *ssa.Call) Val {
	a0 := m.val(f, call.Call.Args[0])
	a1 := m.val(f, call.Call.Args[1])
	st := call.Type().Underlying().(*types.Slice)
	if dec, ok := isCoinsType(call.Type()); ok {
		c := m.asCoins(a0)
		add := m.asCoins(a1)
		if !add.IsSmall && len(add.Small) == 0 {
			panic(unsupported("append of a symbolic coin list"))
		}
		m.E.Assume("A-COINS-APPEND", "append on a coin list is read on the map view (the appended denom must be absent and in sorted position, as in the order-preserving filter of ResetAssetAndValidators)")
		M := c.M
		for _, p := range add.Small {
			M = Store(M, p.Denom, p.Amt)
		}
		_ = dec
		return &CoinsV{Dec: c.Dec, M: M}
	}
	if lt, ok := leafSortOf(call.Type()); ok && lt == SBytes {
		// append on byte strings: key construction outside the abstracted builders
		return m.bytesAppend(a0, a1)
	}
	sq := m.asSeqLoose(a0, st.Elem())
	var vals []Val
	switch y := a1.(type) {
	case *SeqV:
		if y.Conc == nil {
			return m.seqConcat(sq, y)
		}
		vals = y.Conc
	case *NilV:
	default:
		panic(unsupported(fmt.Sprintf("append of %T", a1)))
	}
	return m.seqAppend(sq, vals)
}

func (m *Machine) asSeqLoose(v Val, elem types.Type) *SeqV {
	switch x := v.(type) {
	case *SeqV:
		return x
	case *NilV:
		return &SeqV{Elem: elem, Len: IntLit(0), Conc: []Val{}, IsNil: True}
	}
	panic(unsupported(fmt.Sprintf("append to %T", v)))
}

func (m *Machine) seqConcat(a, b *SeqV) *SeqV {
	a = m.asSeq(a, a.Elem)
	out := &SeqV{Elem: a.Elem, Len: Add(a.Len, b.Len), IsNil: False}
	m.Z3Ext = false
	for j := range a.Leaves {
		arr := m.E.D.Fresh("cat", a.Leaves[j].Sort)
		m.AssumeT(T(SBool, fmt.Sprintf("(forall ((i Int)) (! (= (select %s i) (ite (< i %s) (select %s i) (select %s (- i %s)))) :pattern ((select %s i))))",
			arr.S, a.Len.S, a.Leaves[j].S, b.Leaves[j].S, a.Len.S, arr.S)))
		out.Leaves = append(out.Leaves, arr)
	}
	return out
}

func (m *Machine) bytesAppend(a, b Val) Val {
	m.E.D.Fun("bcat", []Sort{SBytes, SBytes}, SBytes)
	bt, ok := b.(*Term)
	if !ok {
		panic(unsupported("append of non-bytes to bytes"))
	}
	return App(SBytes, "bcat", a.(*Term), bt)
}

func leafIndex(t types.Type, path string) int {
	for i, l := range leavesOf(t) {
		if l.Path == path {
			return i
		}
	}
	return -1
}

func hasPrefix(s, p string) bool { return strings.HasPrefix(s, p) }


// assumeFreshPtr: a newly allocated object is different from every pointer already held in a pointer sequence of the current state
// (the cell id is new in this execution, and under the loop rule the havocked state stands for a real state reached BEFORE this allocation).
func (m *Machine) assumeFreshPtr(pt *Term, cell int) {
	// only an object allocated INSIDE the current iteration of every enclosing loop is new with respect to the havocked state
	for _, f := range m.Frames {
		for _, lc := range f.Loops {
			if lc != nil && lc.Entered && lc.Havocked != nil && cell <= lc.MaxCell {
				return
			}
		}
	}
	seen := map[string]bool{}
	visit := func(v Val) {
		sq, ok := v.(*SeqV)
		if !ok || sq.Conc != nil || len(sq.Leaves) != 1 {
			return
		}
		if _, isPtr := sq.Elem.Underlying().(*types.Pointer); !isPtr {
			return
		}
		key := sq.Leaves[0].S + "|" + sq.Len.S
		if seen[key] {
			return
		}
		seen[key] = true
		m.AssumeT(T(SBool, fmt.Sprintf("(forall ((j Int)) (! (=> (and (<= 0 j) (< j %s)) (not (= (select %s j) %s))) :pattern ((select %s j))))", sq.Len.S, sq.Leaves[0].S, pt.S, sq.Leaves[0].S)))
	}
	for _, f := range m.Frames {
		for _, v := range f.Env {
			visit(v)
		}
		for _, v := range f.Bind {
			visit(v)
		}
	}
	for _, v := range m.Heap {
		visit(v)
		if sv, ok := v.(*StructV); ok {
			for _, fv := range sv.F {
				visit(fv)
			}
		}
	}
}
