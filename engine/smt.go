package main

import (
	"runtime"
	"strconv"
	"bytes"
	"context"
	"fmt"
	"os"
	"os/exec"
	"strings"
	"time"
)

// Reading selects how LegacyDec arithmetic is interpreted (DESIGN.md section 3.4).
type Reading string

const (
	ReadU Reading = "U" // Dec = raw Int; Mul/Quo/MulInt/QuoInt/Power uninterpreted + axioms (each axiom is an E-lemma)
	ReadE Reading = "E" // Dec = raw Int; exact banker's-rounding definitions transcribed from cosmossdk.io/math v1.2.0
	ReadR Reading = "R" // Dec = Real; ideal arithmetic ("ideal" obligations only)
)

const preludeCommon = `(set-option :smt.mbqi true)
(declare-sort Str 0)
(declare-sort Bytes 0)
(declare-fun bnil () Bytes)
(define-fun P18 () Int 1000000000000000000)
(define-fun tdiv ((a Int) (b Int)) Int (ite (>= a 0) (ite (> b 0) (div a b) (- (div a (- b)))) (ite (> b 0) (- (div (- a) b)) (div (- a) (- b)))))
(define-fun tmod ((a Int) (b Int)) Int (- a (* b (tdiv a b))))
(define-fun imin ((a Int) (b Int)) Int (ite (<= a b) a b))
(define-fun imax ((a Int) (b Int)) Int (ite (>= a b) a b))
(define-fun iabs ((a Int)) Int (ite (>= a 0) a (- a)))
`

const preludeIntDec = `(define-sort Dec () Int)
(define-fun dlit ((n Int)) Dec n)
(define-fun dofint ((i Int)) Dec (* i P18))
(define-fun dtrunc ((a Dec)) Int (tdiv a P18))
(define-fun dtruncdec ((a Dec)) Dec (* (tdiv a P18) P18))
(define-fun dabs ((a Dec)) Dec (ite (>= a 0) a (- a)))
(define-fun dceil ((a Dec)) Dec (let ((t (* (tdiv a P18) P18))) (ite (and (> a 0) (not (= t a))) (+ t P18) t)))
(define-fun chop ((x Int)) Int
  (let ((ax (ite (>= x 0) x (- x))))
   (let ((q (div ax P18)) (r (mod ax P18)))
    (let ((res (ite (< r 500000000000000000) q (ite (> r 500000000000000000) (+ q 1) (ite (= (mod q 2) 0) q (+ q 1))))))
      (ite (< x 0) (- res) res)))))
`

const preludeE = `(define-fun dmul ((a Dec) (b Dec)) Dec (chop (* a b)))
(define-fun dquo ((a Dec) (b Dec)) Dec (chop (tdiv (* a (* P18 P18)) b)))
(define-fun dmulint ((a Dec) (i Int)) Dec (* a i))
(define-fun dquoint ((a Dec) (i Int)) Dec (tdiv a i))
(define-fun dround ((a Dec)) Int (chop a))
(define-fun dmultrunc ((a Dec) (b Dec)) Dec (tdiv (* a b) P18))
(declare-fun dpow (Dec Int) Dec)
(assert (forall ((x Dec)) (! (= (dpow x 0) P18) :pattern ((dpow x 0)))))
(assert (forall ((x Dec)) (! (= (dpow x 1) x) :pattern ((dpow x 1)))))
(assert (forall ((x Dec) (n Int)) (! (=> (and (<= 0 x) (<= x P18) (>= n 0)) (and (<= 0 (dpow x n)) (<= (dpow x n) P18))) :pattern ((dpow x n)))))
(assert (forall ((x Dec) (n Int)) (! (=> (and (<= 0 x) (<= x P18) (>= n 1)) (<= (dpow x n) x)) :pattern ((dpow x n)))))
(assert (forall ((x Dec) (n Int)) (! (=> (and (<= 0 x) (>= n 0)) (<= 0 (dpow x n))) :pattern ((dpow x n)))))
`

// U: the four nonlinear operations are uninterpreted; the axioms below are exactly the tier-0 lemmas
// proved in reading E by `gvc lemmas` on every run of a property that uses reading U.
var preludeU = `(declare-fun dmul (Dec Dec) Dec)
(declare-fun dquo (Dec Dec) Dec)
(declare-fun dmulint (Dec Int) Dec)
(declare-fun dquoint (Dec Int) Dec)
(declare-fun dround (Dec) Int)
(declare-fun dmultrunc (Dec Dec) Dec)
(declare-fun dpow (Dec Int) Dec)
` + uAxioms

var uAxiomList = []struct{ Name, Ax string }{
	{"mul_nonneg", "(forall ((a Dec) (b Dec)) (! (=> (and (>= a 0) (>= b 0)) (>= (dmul a b) 0)) :pattern ((dmul a b))))"},
	{"mul_le_left", "(forall ((a Dec) (b Dec)) (! (=> (and (>= a 0) (>= b 0) (<= b P18)) (<= (dmul a b) a)) :pattern ((dmul a b))))"},
	{"mul_zero_r", "(forall ((a Dec)) (! (= (dmul a 0) 0) :pattern ((dmul a 0))))"},
	{"mul_zero_l", "(forall ((b Dec)) (! (= (dmul 0 b) 0) :pattern ((dmul 0 b))))"},
	{"mul_one_r", "(forall ((a Dec)) (! (= (dmul a P18) a) :pattern ((dmul a P18))))"},
	{"quo_nonneg", "(forall ((a Dec) (b Dec)) (! (=> (and (>= a 0) (> b 0)) (>= (dquo a b) 0)) :pattern ((dquo a b))))"},
	{"quo_self", "(forall ((a Dec)) (! (=> (not (= a 0)) (= (dquo a a) P18)) :pattern ((dquo a a))))"},
	{"quo_zero", "(forall ((b Dec)) (! (=> (not (= b 0)) (= (dquo 0 b) 0)) :pattern ((dquo 0 b))))"},
	{"quo_le_one", "(forall ((a Dec) (b Dec)) (! (=> (and (>= a 0) (> b 0) (<= a b)) (<= (dquo a b) P18)) :pattern ((dquo a b))))"},
	{"mulint_nonneg", "(forall ((a Dec) (i Int)) (! (=> (and (>= a 0) (>= i 0)) (>= (dmulint a i) 0)) :pattern ((dmulint a i))))"},
	{"mulint_zero", "(forall ((a Dec)) (! (= (dmulint a 0) 0) :pattern ((dmulint a 0))))"},
	{"mulint_zero_l", "(forall ((i Int)) (! (= (dmulint 0 i) 0) :pattern ((dmulint 0 i))))"},
	{"mulint_le", "(forall ((a Dec) (i Int)) (! (=> (and (>= a 0) (<= a P18) (>= i 0)) (<= (dmulint a i) (* i P18))) :pattern ((dmulint a i))))"},
	{"multrunc_nonneg", "(forall ((a Dec) (b Dec)) (! (=> (and (>= a 0) (>= b 0)) (>= (dmultrunc a b) 0)) :pattern ((dmultrunc a b))))"},
	{"multrunc_le_left", "(forall ((a Dec) (b Dec)) (! (=> (and (>= a 0) (>= b 0) (<= b P18)) (<= (dmultrunc a b) a)) :pattern ((dmultrunc a b))))"},
	{"multrunc_zero_r", "(forall ((a Dec)) (! (= (dmultrunc a 0) 0) :pattern ((dmultrunc a 0))))"},
	{"multrunc_zero_l", "(forall ((b Dec)) (! (= (dmultrunc 0 b) 0) :pattern ((dmultrunc 0 b))))"},
	{"round_near", "(forall ((a Dec)) (! (and (<= (- a (* (dround a) P18)) 500000000000000000) (<= (- (* (dround a) P18) a) 500000000000000000)) :pattern ((dround a))))"},
	{"quoint_nonneg", "(forall ((a Dec) (i Int)) (! (=> (and (>= a 0) (> i 0)) (and (>= (dquoint a i) 0) (<= (dquoint a i) a))) :pattern ((dquoint a i))))"},
}

var uAxioms = func() string {
	var b strings.Builder
	for _, a := range uAxiomList {
		b.WriteString("(assert " + a.Ax + ")\n")
	}
	b.WriteString(`(assert (forall ((x Dec)) (! (= (dpow x 0) P18) :pattern ((dpow x 0)))))
(assert (forall ((x Dec)) (! (= (dpow x 1) x) :pattern ((dpow x 1)))))
(assert (forall ((x Dec) (n Int)) (! (=> (and (<= 0 x) (<= x P18) (>= n 0)) (and (<= 0 (dpow x n)) (<= (dpow x n) P18))) :pattern ((dpow x n)))))
(assert (forall ((x Dec) (n Int)) (! (=> (and (<= 0 x) (<= x P18) (>= n 1)) (<= (dpow x n) x)) :pattern ((dpow x n)))))
(assert (forall ((x Dec) (n Int)) (! (=> (and (<= 0 x) (>= n 0)) (<= 0 (dpow x n))) :pattern ((dpow x n)))))
`)
	return b.String()
}()

const preludeR = `(define-sort Dec () Real)
(define-fun dlit ((n Int)) Dec (/ (to_real n) 1000000000000000000.0))
(define-fun dofint ((i Int)) Dec (to_real i))
(define-fun dtrunc ((a Dec)) Int (ite (>= a 0.0) (to_int a) (- (to_int (- a)))))
(define-fun dtruncdec ((a Dec)) Dec (to_real (dtrunc a)))
(define-fun dabs ((a Dec)) Dec (ite (>= a 0.0) a (- a)))
(define-fun dmul ((a Dec) (b Dec)) Dec (* a b))
(define-fun dquo ((a Dec) (b Dec)) Dec (/ a b))
(define-fun dmulint ((a Dec) (i Int)) Dec (* a (to_real i)))
(define-fun dquoint ((a Dec) (i Int)) Dec (/ a (to_real i)))
(declare-fun dround (Dec) Int)
(define-fun dmultrunc ((a Dec) (b Dec)) Dec (* a b))
(define-fun dceil ((a Dec)) Dec (ite (= (to_real (to_int a)) a) a (to_real (+ (to_int a) 1))))
(declare-fun dpow (Dec Int) Dec)
(assert (forall ((x Dec)) (! (= (dpow x 0) 1.0) :pattern ((dpow x 0)))))
(assert (forall ((x Dec)) (! (= (dpow x 1) x) :pattern ((dpow x 1)))))
(assert (forall ((x Dec) (n Int)) (! (=> (and (<= 0.0 x) (<= x 1.0) (>= n 0)) (and (<= 0.0 (dpow x n)) (<= (dpow x n) 1.0))) :pattern ((dpow x n)))))
`

func Prelude(r Reading) string {
	switch r {
	case ReadE:
		return preludeCommon + preludeIntDec + preludeE
	case ReadR:
		return preludeCommon + preludeR
	default:
		return preludeCommon + preludeIntDec + preludeU
	}
}

type SolveResult struct {
	Status string // unsat | sat | unknown | timeout | error
	Solver string
	Ms     int64
	Output string
	Model  string
}

type solverSpec struct {
	name string
	argv []string
}

func solverCmds(timeoutS int, seed int) []solverSpec {
	return []solverSpec{
		{"z3-5.1.0", []string{"z3-new", "-in", fmt.Sprintf("-T:%d", timeoutS), fmt.Sprintf("smt.random_seed=%d", seed), fmt.Sprintf("sat.random_seed=%d", seed)}},
		{"z3-4.8.12", []string{"z3", "-in", fmt.Sprintf("-T:%d", timeoutS), fmt.Sprintf("smt.random_seed=%d", seed), fmt.Sprintf("sat.random_seed=%d", seed)}},
		{"cvc5-1.0", []string{"cvc5", "--lang=smt2", fmt.Sprintf("--tlimit=%d", timeoutS*1000), "--full-saturate-quant", fmt.Sprintf("--seed=%d", seed)}},
	}
}

func runSolver(ctx context.Context, sp solverSpec, query string) SolveResult {
	t0 := time.Now()
	cmd := exec.CommandContext(ctx, sp.argv[0], sp.argv[1:]...)
	cmd.Stdin = strings.NewReader(query)
	var out bytes.Buffer
	cmd.Stdout = &out
	cmd.Stderr = &out
	_ = cmd.Run()
	ms := time.Since(t0).Milliseconds()
	s := out.String()
	// the verdict is the first line that is not a solver warning
	first := ""
	body := strings.TrimSpace(s)
	for _, l := range strings.Split(body, "\n") {
		l = strings.TrimSpace(l)
		if l == "" || strings.HasPrefix(l, "WARNING:") {
			continue
		}
		first = l
		break
	}
	res := SolveResult{Solver: sp.name, Ms: ms, Output: s}
	switch {
	case first == "unsat":
		res.Status = "unsat"
	case first == "sat":
		res.Status = "sat"
		if i := strings.Index(s, "\n"); i >= 0 {
			res.Model = s[i+1:]
		}
	case first == "unknown" || first == "timeout":
		res.Status = "unknown"
		if strings.Contains(s, "timeout") || strings.Contains(s, "canceled") {
			res.Status = "timeout"
		}
	case ctx.Err() != nil:
		res.Status = "timeout"
	default:
		res.Status = "error"
	}
	return res
}

// Solve decides one query with a portfolio: stage 1 races two z3 5.1 configurations for a short budget
// (most goals are decided there in milliseconds); stage 2 races five configurations/solvers for the full
// budget. Configurations differ in case splitting and quantifier-instantiation eagerness, which is what makes
// single runs on quantifier-heavy goals unstable. usesZ3Ext: the query contains z3-only constructs, skip cvc5.
func Solve(query string, timeoutS int, seed int, usesZ3Ext bool, needModel bool) SolveResult {
	q := query
	if needModel {
		q = query + "(get-model)\n"
	}
	mk := func(name string, bin string, t int, extra ...string) solverSpec {
		argv := []string{bin, "-in", fmt.Sprintf("-T:%d", t), fmt.Sprintf("smt.random_seed=%d", seed), fmt.Sprintf("sat.random_seed=%d", seed)}
		argv = append(argv, extra...)
		return solverSpec{name, argv}
	}
	race := func(specs []solverSpec, budget int, cvc bool) SolveResult {
		ctx, cancel := context.WithTimeout(context.Background(), time.Duration(budget+2)*time.Second)
		defer cancel()
		ch := make(chan SolveResult, len(specs)+1)
		n := 0
		for _, sp := range specs {
			n++
			go func(sp solverSpec) { ch <- runSolver(ctx, sp, q) }(sp)
		}
		if cvc {
			qq := strings.Replace(q, "(set-option :smt.mbqi true)\n", "(set-logic ALL)\n", 1)
			if needModel {
				qq = "(set-option :produce-models true)\n" + qq
			}
			n++
			sp := solverSpec{"cvc5-1.0", []string{"cvc5", "--lang=smt2", fmt.Sprintf("--tlimit=%d", budget*1000), "--full-saturate-quant", fmt.Sprintf("--seed=%d", seed)}}
			go func() { ch <- runSolver(ctx, sp, qq) }()
		}
		var best SolveResult
		best.Status = "error"
		for i := 0; i < n; i++ {
			rr := <-ch
			if rr.Status == "unsat" || rr.Status == "sat" {
				cancel()
				return rr
			}
			if best.Status == "error" || (rr.Status != "error" && best.Status != "unknown") {
				best = rr
			}
		}
		return best
	}
	// wall-clock budgets are scaled by the machine's load so that a verdict does not depend on what else is running:
	// factor = 1-minute load average / number of CPUs, between 1 and 8
	if lf := loadFactor(); lf > 1 {
		timeoutS = int(float64(timeoutS)*lf + 0.5)
	}
	short := 3
	if lf := loadFactor(); lf > 1 {
		short = int(3*lf + 0.5)
	}
	if timeoutS < short {
		short = timeoutS
	}
	r := race([]solverSpec{
		mk("z3-5.1.0", "z3-new", short),
		mk("z3-5.1.0 (case_split=3)", "z3-new", short, "smt.auto_config=false", "smt.case_split=3"),
	}, short, false)
	if r.Status == "unsat" || r.Status == "sat" || timeoutS <= short {
		return r
	}
	return race([]solverSpec{
		mk("z3-5.1.0", "z3-new", timeoutS),
		mk("z3-5.1.0 (case_split=3)", "z3-new", timeoutS, "smt.auto_config=false", "smt.case_split=3"),
		mk("z3-5.1.0 (qi.eager_threshold=100)", "z3-new", timeoutS, "smt.qi.eager_threshold=100"),
		mk("z3-4.8.12", "z3", timeoutS),
		mk("z3-4.8.12 (case_split=3)", "z3", timeoutS, "smt.auto_config=false", "smt.case_split=3"),
	}, timeoutS, !usesZ3Ext)
}

func writeFile(path string, s string) error {
	return os.WriteFile(path, []byte(s), 0o644)
}


func loadFactor() float64 {
	b, err := os.ReadFile("/proc/loadavg")
	if err != nil {
		return 1
	}
	f := strings.Fields(string(b))
	if len(f) == 0 {
		return 1
	}
	l, err := strconv.ParseFloat(f[0], 64)
	if err != nil {
		return 1
	}
	x := l / float64(runtime.NumCPU())
	if x < 1 {
		return 1
	}
	if x > 8 {
		return 8
	}
	return x
}
