package main

import (
	"fmt"
	"os"
	"go/types"
	"runtime/debug"
	"sort"
	"strings"

	"golang.org/x/tools/go/ssa"
)

// ---------------- top-level verification of one function ----------------

type FuncReport struct {
	Name     string
	Paths    int
	Unsupp   string // non-empty: the function could not be translated; its obligations are NOT generated
	NObls    int
	SpecErrs []string
}

func (E *Engine) keeperVal(m *Machine, t types.Type) Val {
	st := t.Underlying().(*types.Struct)
	sv := &StructV{Typ: t, F: make([]Val, st.NumFields())}
	for i := 0; i < st.NumFields(); i++ {
		f := st.Field(i)
		switch f.Name() {
		case "feeCollectorName":
			sv.F[i] = E.D.Const("k_feeCollectorName", SStr)
		case "authorityAddr":
			sv.F[i] = E.D.Const("k_authorityAddr", SStr)
		default:
			if f.Embedded() || strings.HasSuffix(typeKey(f.Type()), "keeper.Keeper") {
				sv.F[i] = E.keeperVal(m, f.Type())
			} else if _, ok := f.Type().Underlying().(*types.Struct); ok && !isOpaqueType(f.Type()) {
				sv.F[i] = m.symbolicValue(f.Type(), f.Name())
			} else {
				sv.F[i] = &OpaqueV{Tag: "iface:" + typeKey(f.Type()), Typ: f.Type()}
			}
		}
	}
	return sv
}

func isKeeperLike(t types.Type) bool {
	s := typeKey(t)
	return strings.HasPrefix(s, modPath) && (strings.HasSuffix(s, "keeper.Keeper") || strings.HasSuffix(s, "keeper.MsgServer") ||
		strings.HasSuffix(s, "keeper.Hooks") || strings.HasSuffix(s, "keeper.QueryServer") || strings.HasSuffix(s, "bindings.QueryPlugin"))
}

func resultNames(fn *ssa.Function) []string {
	r := fn.Signature.Results()
	out := make([]string, r.Len())
	for i := 0; i < r.Len(); i++ {
		n := r.At(i).Name()
		if n == "" || n == "_" {
			n = fmt.Sprintf("r%d", i)
			if typeKey(r.At(i).Type()) == "error" {
				n = "err"
			}
		}
		out[i] = n
	}
	return out
}

func (E *Engine) VerifyFunc(name string) (rep FuncReport) {
	rep.Name = name
	fn := E.P.Funcs[name]
	c := E.Specs.Contracts[name]
	if fn == nil {
		rep.Unsupp = "function not found in /repo (contract block refers to a function that no longer exists)"
		return
	}
	if c == nil {
		rep.Unsupp = "no contract"
		return
	}
	start := len(E.Obls)
	defer func() {
		if r := recover(); r != nil {
			E.Obls = E.Obls[:start]
			for k := range E.Trivial {
				if strings.HasPrefix(k, name+":post:") {
					delete(E.Trivial, k)
				}
			}
			switch e := r.(type) {
			case unsupportedErr:
				rep.Unsupp = e.msg
			case specErr:
				rep.Unsupp = "contract error: " + e.msg
			default:
				rep.Unsupp = fmt.Sprintf("internal error: %v\n%s", r, debug.Stack())
			}
		}
		rep.NObls = len(E.Obls) - start
	}()
	if c.Trusted && len(c.Sweep) == 0 {
		return
	}
	// a trusted contract with a sweep: the body is executed for its safe:* (panic-freedom) obligations only; the functional
	// postconditions stay assumed
	E.npaths = 0
	E.SumsOn = c.Sums
	defer func() { E.SumsOn = false }()
	m := &Machine{E: E, Heap: map[int]Val{}, G: map[string]*Term{}}
	m.Entry = &Snapshot{G: map[string]*Term{}, Heap: map[int]Val{}}
	top := &TopCtx{Fn: fn, Name: name, C: c}
	m.Top = top
	f := &Frame{Fn: fn, Env: map[ssa.Value]Val{}, Block: fn.Blocks[0], Loops: map[int]*LoopCtx{}}
	for _, p := range fn.Params {
		var v Val
		if isKeeperLike(p.Type()) {
			v = E.keeperVal(m, p.Type())
		} else {
			v = m.symbolicValue(p.Type(), "arg_"+p.Name())
		}
		f.Env[p] = v
		top.Args = append(top.Args, v)
		top.ArgNames = append(top.ArgNames, p.Name())
	}
	m.Frames = []*Frame{f}
	// entry snapshot (heap cells of symbolic inputs)
	m.Entry.Heap = copyHeap(m.Heap)
	for k, v := range m.G {
		m.Entry.G[k] = v
	}
	ev := &Evaluator{E: E, M: m, Frame: f, Old: m.Entry}
	for _, ld := range c.Lets {
		if ev.Lets == nil {
			ev.Lets = map[string]Val{}
		}
		ev.Lets[ld.Name] = ev.Eval(ld.Expr)
	}
	top.Lets = ev.Lets
	for _, rq := range c.Requires {
		if rq.CallSiteOnly {
			top.Demands = append(top.Demands, ev.EvalBool(rq.Expr, rq.Src))
			continue
		}
		m.AssumeT(ev.EvalBool(rq.Expr, rq.Src))
	}
	m.Entry.Heap = copyHeap(m.Heap)
	for k, v := range m.G {
		if _, ok := m.Entry.G[k]; !ok {
			m.Entry.G[k] = v
		}
	}
	if E.EntryPC == nil {
		E.EntryPC = map[string][]*Term{}
	}
	E.EntryPC[name] = append([]*Term{}, m.PC...)
	rnames := resultNames(fn)
	E.Run(m, func(pe pathEnd) {
		rep.Paths++
		if os.Getenv("GVC_TRACE") != "" {
			fmt.Fprintf(os.Stderr, "PATH END %s panic=%v: %s\n", name, pe.Panic, strings.Join(pe.M.Trace, " "))
		}
		if pe.Panic {
			if len(c.Sweep) > 0 {
				E.addObl(pe.M, &Obligation{Name: name + ":safe:panic", Func: name, Kind: "safe", Props: c.Sweep, Reading: ReadE, Goal: False, Src: pe.Reason})
			}
			return
		}
		pm := pe.M
		pev := &Evaluator{E: E, M: pm, Old: pm.Entry, Names: map[string]Val{}, Lets: top.Lets, Results: pe.Results}
		for i, n := range top.ArgNames {
			pev.Names[n] = top.Args[i]
		}
		for i, n := range rnames {
			if i < len(pe.Results) {
				pev.Names[n] = pe.Results[i]
				pev.Names[fmt.Sprintf("r%d", i)] = pe.Results[i]
			}
		}
		for _, en := range c.Ensures {
			if en.Assumed || c.Trusted {
				continue
			}
			g := pev.EvalBool(en.Expr, en.Src)
			if g.S == "true" {
				// still an instance of the obligation (trivially discharged): count it once per function
				E.noteTrivial(name, en)
				continue
			}
			E.addObl(pm, &Obligation{Name: name + ":post:" + en.Label, Func: name, Kind: "post", Props: en.Props, Reading: en.Reading, Goal: g, Src: en.Src})
		}
	})
	return
}

func (E *Engine) noteTrivial(fn string, cl *Clause) {
	key := fn + ":post:" + cl.Label
	if E.Trivial == nil {
		E.Trivial = map[string]*Clause{}
	}
	E.Trivial[key] = cl
}

// ---------------- modular use of a contract at a call site ----------------

func (E *Engine) applyContract(m *Machine, f *Frame, x *ssa.Call, fn *ssa.Function, c *Contract, args []Val) Val {
	names := map[string]Val{}
	for i, p := range fn.Params {
		names[p.Name()] = args[i]
	}
	ev := &Evaluator{E: E, M: m, Names: names, Old: &Snapshot{G: copyG(m.G), Heap: copyHeap(m.Heap)}}
	for _, ld := range c.Lets {
		if ev.Lets == nil {
			ev.Lets = map[string]Val{}
		}
		ev.Lets[ld.Name] = ev.Eval(ld.Expr)
	}
	site := m.siteName(f, fn.Name())
	E.checkRequires(m, ev, c, site, false)
	return E.applyContractRest(m, f, x, fn, c, args, names, ev)
}

// checkDemands discharges, at the call site of an INLINED function, the call-site demands its contract states.
func (E *Engine) checkDemands(m *Machine, f *Frame, fn *ssa.Function, c *Contract, args []Val) {
	has := false
	for _, rq := range c.Requires {
		if rq.CallSiteOnly {
			has = true
		}
	}
	if !has {
		return
	}
	names := map[string]Val{}
	for i, p := range fn.Params {
		names[p.Name()] = args[i]
	}
	ev := &Evaluator{E: E, M: m, Names: names, Old: &Snapshot{G: copyG(m.G), Heap: copyHeap(m.Heap)}}
	for _, ld := range c.Lets {
		if ev.Lets == nil {
			ev.Lets = map[string]Val{}
		}
		ev.Lets[ld.Name] = ev.Eval(ld.Expr)
	}
	E.checkRequires(m, ev, c, m.siteName(f, fn.Name()), true)
}

func (E *Engine) checkRequires(m *Machine, ev *Evaluator, c *Contract, site string, demandsOnly bool) {
	for _, rq := range c.Requires {
		if demandsOnly && !rq.CallSiteOnly {
			continue
		}
		g := ev.EvalBool(rq.Expr, rq.Src)
		if g.S == "true" {
			continue
		}
		props := rq.Props
		if len(props) == 0 && m.Top != nil && m.Top.C != nil {
			props = allProps(m.Top.C)
		} else if rq.CallSiteOnly && m.Top != nil && m.Top.C != nil && len(m.Top.C.Promote[rq.Label]) > 0 {
			// the caller's contract claims this callee demand under further properties (`promote`)
			props = append(append([]string{}, props...), m.Top.C.Promote[rq.Label]...)
		}
		o := &Obligation{Name: fmt.Sprintf("%s:pre@%s:%s", m.Top.Name, site, rq.Label), Func: m.Top.Name, Kind: "pre", Props: props, Reading: rq.Reading, Goal: g, Src: rq.Src}
		E.addObl(m, o)
		if rq.CallSiteOnly && m.Top != nil && E.probing == 0 {
			// a panic-freedom demand of the callee may rely on the caller's own demands
			o.Hyps = append(o.Hyps, m.Top.Demands...)
		}
		m.AssumeT(g)
	}
}

func (E *Engine) applyContractRest(m *Machine, f *Frame, x *ssa.Call, fn *ssa.Function, c *Contract, args []Val, names map[string]Val, ev *Evaluator) Val {
	name := FuncName(fn)
	old := &Snapshot{G: copyG(m.G), Heap: copyHeap(m.Heap)}
	// havoc the frame
	for _, mod := range c.Modifies {
		if strings.HasPrefix(mod, "*") {
			e, err := ParseExpr(mod[1:])
			if err != nil {
				panic(specErr{"modifies " + mod + ": " + err.Error()})
			}
			pv := ev.Eval(e)
			p, ok := pv.(*PtrV)
			if !ok {
				panic(specErr{"modifies " + mod + ": not a pointer to a Go-side object"})
			}
			cur := m.Load(p)
			m.StoreTo(p, m.havocLike(cur, sanitize(name+"_"+mod)))
			continue
		}
		if mod == "H" {
			for k, t := range m.G {
				if strings.HasPrefix(k, "H:") {
					m.SetG(k, E.D.Fresh(sanitize(k)+"_after_"+sanitize(fn.Name()), t.Sort))
				}
			}
			continue
		}
		var cur *Term
		switch mod {
		case "S":
			cur = m.S()
		case "bank":
			cur = m.Bank()
		case "supply":
			cur = m.Supply()
		default:
			cur = m.G[mod]
			if cur == nil {
				if gs, ok := ghostSorts[mod]; ok {
					cur = m.GetG(mod, gs)
				} else {
					panic(specErr{"modifies: unknown state component " + mod})
				}
			}
		}
		m.SetG(mod, E.D.Fresh(sanitize(mod)+"_after_"+sanitize(fn.Name()), cur.Sort))
	}
	// results
	var res []Val
	rts := sigResults(fn)
	rn := resultNames(fn)
	for i, rt := range rts {
		var v Val
		if typeKey(rt) == "error" {
			v = E.D.Fresh("err_"+fn.Name(), SInt)
			m.AssumeT(Ge(v.(*Term), IntLit(0)))
		} else {
			v = m.symbolicValue(rt, "res_"+fn.Name()+"_"+rn[i])
		}
		res = append(res, v)
		names[rn[i]] = v
		names[fmt.Sprintf("r%d", i)] = v
	}
	pev := &Evaluator{E: E, M: m, Names: names, Old: old, Lets: ev.Lets, Results: res}
	for _, en := range c.Ensures {
		if E.knownFailing(name + ":post:" + en.Label) {
			continue // a recorded finding: callers must not rely on it
		}
		if !c.Trusted && len(en.Props) == 0 && !en.Assumed {
			continue // not claimed under any property, hence never checked: callers must not rely on it
		}
		if en.Assumed && !c.Trusted {
			E.Assume("T-"+name+":"+en.Label, "assumed clause of a verified contract (not checked against the body): "+name+" ensures "+en.Label)
		}
		m.AssumeT(pev.EvalBool(en.Expr, en.Src))
	}
	if c.Trusted {
		if len(c.Sweep) > 0 {
			E.Assume("T-"+name, "trusted contract (functional clauses not verified against the body; the body IS executed for its panic-freedom obligations safe:*): "+name)
		} else {
			E.Assume("T-"+name, "trusted contract (body not verified): "+name)
		}
	}
	return tupleOf(res...)
}

func allProps(c *Contract) []string {
	set := map[string]bool{}
	for _, e := range c.Ensures {
		for _, p := range e.Props {
			set[p] = true
		}
	}
	for _, p := range c.Sweep {
		set[p] = true
	}
	for _, p := range c.Covers {
		set[p] = true
	}
	for _, ps := range c.Promote {
		for _, p := range ps {
			set[p] = true
		}
	}
	for _, a := range c.Asserts {
		for _, p := range a.Cl.Props {
			set[p] = true
		}
	}
	for _, r := range c.Requires {
		if r.CallSiteOnly {
			continue
		}
	}
	for _, l := range c.Loops {
		for _, i := range l.Invariants {
			for _, p := range i.Props {
				set[p] = true
			}
		}
	}
	var out []string
	for p := range set {
		out = append(out, p)
	}
	sort.Strings(out)
	return out
}

// ---------------- queries ----------------

func (E *Engine) buildQuery(r Reading, hyps []*Term, goal *Term) string {
	var b strings.Builder
	b.WriteString(Prelude(r))
	if os.Getenv("GVC_ALLAXIOMS") != "" {
		b.WriteString(E.D.Dump())
	} else {
		var tb strings.Builder
		for _, h := range hyps {
			tb.WriteString(h.S)
			tb.WriteByte(' ')
		}
		tb.WriteString(goal.S)
		b.WriteString(E.D.DumpFor(tb.String()))
	}
	for _, h := range hyps {
		b.WriteString("(assert ")
		b.WriteString(h.S)
		b.WriteString(")\n")
	}
	b.WriteString("(assert (not ")
	b.WriteString(goal.S)
	b.WriteString("))\n(check-sat)\n")
	return b.String()
}

// buildBatchQuery decides several path instances of one obligation at once: hypotheses shared by all instances are asserted at top level,
// the rest goes into one disjunct per instance together with the negated goal. unsat <=> every instance is valid.
func (E *Engine) buildBatchQuery(r Reading, obls []*Obligation) string {
	count := map[string]int{}
	for _, o := range obls {
		seen := map[string]bool{}
		for _, h := range o.Hyps {
			if !seen[h.S] {
				seen[h.S] = true
				count[h.S]++
			}
		}
	}
	var b, tb strings.Builder
	b.WriteString(Prelude(r))
	for _, o := range obls {
		for _, h := range o.Hyps {
			tb.WriteString(h.S)
			tb.WriteByte(' ')
		}
		tb.WriteString(o.Goal.S)
		tb.WriteByte(' ')
	}
	if os.Getenv("GVC_ALLAXIOMS") != "" {
		b.WriteString(E.D.Dump())
	} else {
		b.WriteString(E.D.DumpFor(tb.String()))
	}
	done := map[string]bool{}
	for _, o := range obls {
		for _, h := range o.Hyps {
			if count[h.S] == len(obls) && !done[h.S] {
				done[h.S] = true
				b.WriteString("(assert " + h.S + ")\n")
			}
		}
	}
	b.WriteString("(assert (or")
	for _, o := range obls {
		b.WriteString("\n (and true")
		for _, h := range o.Hyps {
			if count[h.S] != len(obls) {
				b.WriteString(" " + h.S)
			}
		}
		b.WriteString(" (not " + o.Goal.S + "))")
	}
	b.WriteString("))\n(check-sat)\n")
	return b.String()
}

func (E *Engine) knownFailing(obl string) bool {
	if E.knownSet == nil {
		E.knownSet = map[string]bool{}
		for _, k := range loadKnown() {
			if k.Status == "known" {
				E.knownSet[k.Obligation] = true
			}
		}
	}
	return E.knownSet[obl]
}

// GenLemmas turns the stand-alone lemmas (facts about the spec functions, no program state) into obligations.
func (E *Engine) GenLemmas(prop string) (n int, errs []string) {
	for _, cl := range E.Specs.Lemmas {
		if !hasProp(cl.Props, prop) {
			continue
		}
		func() {
			defer func() {
				if r := recover(); r != nil {
					errs = append(errs, fmt.Sprintf("lemma %s: %v", cl.Label, r))
				}
			}()
			m := &Machine{E: E, Heap: map[int]Val{}, G: map[string]*Term{}}
			m.Entry = &Snapshot{G: map[string]*Term{}, Heap: map[int]Val{}}
			ev := &Evaluator{E: E, M: m, Old: m.Entry}
			g := ev.EvalBool(cl.Expr, cl.Src)
			E.addObl(m, &Obligation{Name: "lemma:" + cl.Label, Func: "lemma", Kind: "lemma", Props: cl.Props, Reading: cl.Reading, Goal: g, Src: cl.Src})
			n++
		}()
	}
	return
}
