package types_test

// Bounded validation of assumption A-KEYS (the algebraic reading of x/alliance/types/keys.go used by every contract):
// the REAL key builders and parsers are run over a finite domain of denoms, addresses, times and heights and every fact
// the algebraic model assumes is checked on the bytes they produce. One subtest per fact; a failure prints the inputs.
// This is a bounded check (domain below), never counted as proved. Run by `gvc check Cxx --tier thorough` through
// `go test -overlay` (nothing is written to the repository).

import (
	"bytes"
	"fmt"
	"testing"
	"time"

	sdk "github.com/cosmos/cosmos-sdk/types"

	"github.com/terra-money/alliance/x/alliance/types"
)

var (
	klDenoms = []string{"a", "b", "ab", "ba", "aa", "abc", "bc", "c", "ibc/A1", "bc/A1", "uluna", "luna"}
	klAddrs  = [][]byte{{1}, {2}, {1, 2}, {2, 1}, {1, 1}, {0}, {0, 1}, {1, 0}, {255}, bytes.Repeat([]byte{7}, 20), append(bytes.Repeat([]byte{7}, 19), 8), bytes.Repeat([]byte{9}, 32)}
	klTimes  = []time.Time{
		time.Unix(0, 0).UTC(), time.Unix(0, 1).UTC(), time.Unix(1, 0).UTC(), time.Unix(1, 999999999).UTC(), time.Unix(2, 0).UTC(),
		time.Date(1999, 12, 31, 23, 59, 59, 999999999, time.UTC), time.Date(2000, 1, 1, 0, 0, 0, 0, time.UTC),
		time.Date(2024, 2, 29, 12, 0, 0, 5, time.UTC), time.Date(2024, 2, 29, 12, 0, 0, 50, time.UTC), time.Date(9999, 12, 31, 23, 59, 59, 0, time.UTC),
	}
	klHeights = []uint64{0, 1, 255, 256, 65535, 65536, 1 << 32, 1<<63 - 1, 1<<64 - 1}
)

type klRec struct {
	fam  string
	args string
}

func klInjective(t *testing.T, fam string, seen map[string]klRec, key []byte, args string) {
	if prev, ok := seen[string(key)]; ok && (prev.fam != fam || prev.args != args) {
		t.Fatalf("A-KEYS injectivity/disjointness fails: %s(%s) and %s(%s) give the same key %x", prev.fam, prev.args, fam, args, key)
	}
	seen[string(key)] = klRec{fam, args}
}

func TestKeyLayer(t *testing.T) {
	t.Run("constructors_injective_and_families_disjoint", func(t *testing.T) {
		seen := map[string]klRec{}
		klInjective(t, "params", seen, types.ParamsKey, "")
		klInjective(t, "flag", seen, types.AssetRebalanceQueueKey, "")
		for _, d := range klDenoms {
			klInjective(t, "kAsset", seen, types.GetAssetKey(d), d)
		}
		for _, v := range klAddrs {
			klInjective(t, "kValInfo", seen, types.GetAllianceValidatorInfoKey(v), fmt.Sprintf("%x", v))
		}
		for _, d := range klDenoms {
			for _, v := range klAddrs {
				for _, h := range klHeights {
					klInjective(t, "kSnap", seen, types.GetRewardWeightChangeSnapshotKey(d, v, h), fmt.Sprintf("%s %x %d", d, v, h))
				}
			}
		}
		for _, a := range klAddrs {
			for _, v := range klAddrs {
				for _, d := range klDenoms {
					klInjective(t, "kDel", seen, types.GetDelegationKey(a, v, d), fmt.Sprintf("%x %x %s", a, v, d))
				}
			}
		}
		for _, tm := range klTimes {
			klInjective(t, "kRedelQ", seen, types.GetRedelegationQueueKey(tm), tm.String())
			for _, a := range klAddrs {
				klInjective(t, "kUndelQ", seen, types.GetUndelegationQueueKey(tm, a), fmt.Sprintf("%s %x", tm, a))
				for _, d := range klDenoms {
					for _, v := range klAddrs {
						klInjective(t, "kRedel", seen, types.GetRedelegationKey(a, d, v, tm), fmt.Sprintf("%x %s %x %s", a, d, v, tm))
						klInjective(t, "kUnbIdx", seen, types.GetUnbondingIndexKey(v, tm, d, a), fmt.Sprintf("%x %s %s %x", v, tm, d, a))
					}
				}
			}
		}
		for _, tm := range klTimes[:4] {
			for _, a := range klAddrs[:6] {
				for _, d := range klDenoms[:6] {
					for _, src := range klAddrs[:6] {
						for _, dst := range klAddrs[:6] {
							klInjective(t, "kRedelIdx", seen, types.GetRedelegationIndexKey(src, tm, d, dst, a), fmt.Sprintf("%x %s %s %x %x", src, tm, d, dst, a))
						}
					}
				}
			}
		}
	})

	t.Run("parsers_are_the_projections", func(t *testing.T) {
		for _, v := range klAddrs {
			if got := types.ParseAllianceValidatorKey(types.GetAllianceValidatorInfoKey(v)); !bytes.Equal(got, v) {
				t.Fatalf("ParseAllianceValidatorKey(GetAllianceValidatorInfoKey(%x)) = %x", v, got)
			}
		}
		for _, d := range klDenoms {
			for _, v := range klAddrs {
				for _, h := range klHeights {
					d2, v2, h2 := types.ParseRewardWeightChangeSnapshotKey(types.GetRewardWeightChangeSnapshotKey(d, v, h))
					if d2 != d || !bytes.Equal(v2, v) || h2 != h {
						t.Fatalf("ParseRewardWeightChangeSnapshotKey(%s,%x,%d) = %s,%x,%d", d, v, h, d2, v2, h2)
					}
				}
			}
		}
		for _, tm := range klTimes {
			if got := types.ParseRedelegationQueueKey(types.GetRedelegationQueueKey(tm)); !got.Equal(tm) {
				t.Fatalf("ParseRedelegationQueueKey(%s) = %s", tm, got)
			}
			for _, a := range klAddrs {
				got, err := types.ParseUndelegationQueueKeyForCompletionTime(types.GetUndelegationQueueKey(tm, a))
				if err != nil || !got.Equal(tm) {
					t.Fatalf("ParseUndelegationQueueKeyForCompletionTime(%s,%x) = %s %v", tm, a, got, err)
				}
				for _, d := range klDenoms {
					for _, v := range klAddrs {
						if got := types.ParseRedelegationKeyForCompletionTime(types.GetRedelegationKey(a, d, v, tm)); !got.Equal(tm) {
							t.Fatalf("ParseRedelegationKeyForCompletionTime(%x,%s,%x,%s) = %s", a, d, v, tm, got)
						}
						k, ct, err := types.ParseUnbondingIndexKeyToUndelegationKey(types.GetUnbondingIndexKey(v, tm, d, a))
						if err != nil || !ct.Equal(tm) || !bytes.Equal(k, types.GetUndelegationQueueKey(tm, a)) {
							t.Fatalf("ParseUnbondingIndexKeyToUndelegationKey(%x,%s,%s,%x) = %x %s %v, want bucket key %x", v, tm, d, a, k, ct, err, types.GetUndelegationQueueKey(tm, a))
						}
						if ct2, err := types.GetTimeFromUndelegationKey(types.GetUnbondingIndexKey(v, tm, d, a)); err != nil || !ct2.Equal(tm) {
							t.Fatalf("GetTimeFromUndelegationKey(%x,%s,%s,%x) = %s %v", v, tm, d, a, ct2, err)
						}
					}
				}
			}
		}
		for _, tm := range klTimes[:4] {
			for _, a := range klAddrs[:6] {
				for _, d := range klDenoms[:6] {
					for _, src := range klAddrs[:6] {
						for _, dst := range klAddrs[:6] {
							k, ct, err := types.ParseRedelegationIndexForRedelegationKey(types.GetRedelegationIndexKey(src, tm, d, dst, a))
							if err != nil || !ct.Equal(tm) || !bytes.Equal(k, types.GetRedelegationKey(a, d, dst, tm)) {
								t.Fatalf("ParseRedelegationIndexForRedelegationKey(%x,%s,%s,%x,%x) = %x %s %v, want record key %x", src, tm, d, dst, a, k, ct, err, types.GetRedelegationKey(a, d, dst, tm))
							}
						}
					}
				}
			}
		}
	})

	t.Run("prefix_scans_select_by_leading_components", func(t *testing.T) {
		eq := func(x, y []byte) bool { return bytes.Equal(x, y) }
		for _, a := range klAddrs {
			for _, v := range klAddrs {
				for _, d := range klDenoms {
					key := types.GetDelegationKey(a, v, d)
					for _, a2 := range klAddrs {
						if bytes.HasPrefix(key, types.GetDelegationsKey(a2)) != eq(a, a2) {
							t.Fatalf("GetDelegationsKey(%x) vs delegation key (%x,%x,%s)", a2, a, v, d)
						}
						for _, v2 := range klAddrs {
							if bytes.HasPrefix(key, types.GetDelegationsKeyForAllDenoms(a2, v2)) != (eq(a, a2) && eq(v, v2)) {
								t.Fatalf("GetDelegationsKeyForAllDenoms(%x,%x) vs delegation key (%x,%x,%s)", a2, v2, a, v, d)
							}
						}
					}
				}
			}
		}
		for _, tm := range klTimes[:5] {
			for _, a := range klAddrs[:8] {
				for _, d := range klDenoms {
					for _, v := range klAddrs[:8] {
						rk := types.GetRedelegationKey(a, d, v, tm)
						uk := types.GetUnbondingIndexKey(v, tm, d, a)
						for _, a2 := range klAddrs[:8] {
							if bytes.HasPrefix(rk, types.GetRedelegationsKeyByDelegator(a2)) != eq(a, a2) {
								t.Fatalf("GetRedelegationsKeyByDelegator(%x) vs redelegation key (%x,%s,%x)", a2, a, d, v)
							}
							if bytes.HasPrefix(uk, types.GetUndelegationsIndexOrderedByValidatorKey(a2)) != eq(v, a2) {
								t.Fatalf("GetUndelegationsIndexOrderedByValidatorKey(%x) vs index key of validator %x", a2, v)
							}
							for _, d2 := range klDenoms {
								if bytes.HasPrefix(rk, types.GetRedelegationsKeyByDelegatorAndDenom(a2, d2)) != (eq(a, a2) && d == d2) {
									t.Fatalf("GetRedelegationsKeyByDelegatorAndDenom(%x,%s) vs redelegation key (%x,%s,%x)", a2, d2, a, d, v)
								}
								if bytes.HasPrefix(rk, types.GetRedelegationsKey(a2, d2, v)) != (eq(a, a2) && d == d2) {
									t.Fatalf("GetRedelegationsKey(%x,%s,%x) vs redelegation key (%x,%s,%x)", a2, d2, v, a, d, v)
								}
							}
						}
					}
				}
			}
		}
		for _, tm := range klTimes[:3] {
			for _, d := range klDenoms[:4] {
				for _, src := range klAddrs[:8] {
					ik := types.GetRedelegationIndexKey(src, tm, d, klAddrs[0], klAddrs[1])
					for _, s2 := range klAddrs[:8] {
						if bytes.HasPrefix(ik, types.GetRedelegationsIndexOrderedByValidatorKey(s2)) != eq(src, s2) {
							t.Fatalf("GetRedelegationsIndexOrderedByValidatorKey(%x) vs index key of source %x", s2, src)
						}
					}
				}
			}
		}
	})

	t.Run("suffix_match_selects_exactly_denom_and_delegator", func(t *testing.T) {
		for _, v := range klAddrs[:6] {
			for _, tm := range klTimes[:3] {
				for _, d := range klDenoms {
					for _, a := range klAddrs {
						key := types.GetUnbondingIndexKey(v, tm, d, a)
						for _, d2 := range klDenoms {
							for _, a2 := range klAddrs {
								want := d == d2 && bytes.Equal(a, a2)
								if bytes.HasSuffix(key, types.GetPartialUnbondingKeySuffix(d2, a2)) != want {
									t.Fatalf("HasSuffix(GetUnbondingIndexKey(%x,%s,%q,%x), GetPartialUnbondingKeySuffix(%q,%x)) = %v, want %v", v, tm, d, a, d2, a2, !want, want)
								}
							}
						}
					}
				}
			}
		}
	})

	t.Run("time_keyed_queues_are_scanned_chronologically_end_exclusive", func(t *testing.T) {
		inRange := func(k, start, end []byte) bool { return bytes.Compare(k, start) >= 0 && bytes.Compare(k, end) < 0 }
		for _, t1 := range klTimes {
			for _, t2 := range klTimes {
				// redelegation queue: Iterator(RedelegationQueueKey, GetRedelegationQueueKey(now)) selects exactly t < now
				if inRange(types.GetRedelegationQueueKey(t1), types.RedelegationQueueKey, types.GetRedelegationQueueKey(t2)) != t1.Before(t2) {
					t.Fatalf("redelegation queue key of %s in [prefix, key(%s)) must be %v", t1, t2, t1.Before(t2))
				}
				if (bytes.Compare(types.GetRedelegationQueueKey(t1), types.GetRedelegationQueueKey(t2)) < 0) != t1.Before(t2) {
					t.Fatalf("redelegation queue keys of %s and %s are not ordered by time", t1, t2)
				}
				for _, a := range klAddrs {
					// undelegation queue: Iterator(UndelegationQueueKey, GetUndelegationQueueKeyByTime(now)) selects exactly t < now
					if inRange(types.GetUndelegationQueueKey(t1, a), types.UndelegationQueueKey, types.GetUndelegationQueueKeyByTime(t2)) != t1.Before(t2) {
						t.Fatalf("undelegation queue key (%s,%x) in [prefix, keyByTime(%s)) must be %v", t1, a, t2, t1.Before(t2))
					}
					for _, a2 := range klAddrs {
						if t1.Before(t2) && bytes.Compare(types.GetUndelegationQueueKey(t1, a), types.GetUndelegationQueueKey(t2, a2)) >= 0 {
							t.Fatalf("undelegation queue keys (%s,%x) and (%s,%x) are not ordered by time", t1, a, t2, a2)
						}
					}
				}
			}
		}
	})

	t.Run("pagination_key_time_survives_prefix_stripping", func(t *testing.T) {
		// prefix-store iteration (query.Paginate over prefix.NewStore) hands the callback the key with the prefix removed;
		// ParseRedelegationPaginationKeyTime must still read the completion time of the full key, for each prefix the queries use
		for _, tm := range klTimes {
			for _, a := range klAddrs {
				for _, d := range klDenoms {
					for _, v := range klAddrs {
						rk := types.GetRedelegationKey(a, d, v, tm)
						for _, pf := range [][]byte{types.GetRedelegationsKeyByDelegator(a), types.GetRedelegationsKeyByDelegatorAndDenom(a, d), types.GetRedelegationsKey(a, d, v), types.RedelegationKey} {
							if !bytes.HasPrefix(rk, pf) || len(rk) <= len(pf) {
								t.Fatalf("prefix %x is not a proper prefix of redelegation key (%x,%s,%x,%s)", pf, a, d, v, tm)
							}
							if got := types.ParseRedelegationPaginationKeyTime(rk[len(pf):]); !got.Equal(tm) {
								t.Fatalf("ParseRedelegationPaginationKeyTime(stripped key of (%x,%s,%x,%s)) = %s", a, d, v, tm, got)
							}
						}
					}
				}
			}
		}
	})

	t.Run("family_prefixes", func(t *testing.T) {
		fam := map[string][]byte{"asset": types.AssetKey, "valinfo": types.ValidatorInfoKey, "flag": types.AssetRebalanceQueueKey, "snapshot": types.RewardWeightChangeSnapshotKey,
			"delegation": types.DelegationKey, "redelegation": types.RedelegationKey, "redelq": types.RedelegationQueueKey, "undelq": types.UndelegationQueueKey,
			"redelidx": types.RedelegationByValidatorIndexKey, "unbidx": types.UndelegationByValidatorIndexKey, "params": types.ParamsKey}
		for n1, p1 := range fam {
			for n2, p2 := range fam {
				if n1 != n2 && (bytes.HasPrefix(p1, p2) || bytes.HasPrefix(p2, p1)) {
					t.Fatalf("family prefixes %s and %s overlap", n1, n2)
				}
			}
		}
		_ = sdk.AccAddress{}
	})
}
